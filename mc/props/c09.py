"""C09 - lower-priority work never disturbs higher-priority work (DESIGN 4, C09).

(base project, intruder) pairs: the base is scheduled alone and with an added task of strictly lowest
priority on which nothing depends; every base task must keep scheduled flag, start and end. Plus the
direct consequence on the base run: of two independent tasks on one resource the higher priority one is
served first.
"""
import copy
import itertools

from mc.props import c07, common
from mc.run import Stats, explore

ASSUME = [
    "bases: the n=2 universe of C07 (all allocations incl. teams, all edge sets, all priority vectors over {500,700}, leave, daily limit) plus its project-ALAP variants; thorough adds the n=3 slice",
    "intruder: priority 1, effort {1/2, 1, 3} slots, on r1 or r2, declared first / between / last, free or pinned to day 2 10:00; plus special intruders (depending on a base task, task-level ALAP without deadline, milestone, 40 h effort) on one- and two-scenario variants of the unconstrained bases; all scenarios are compared",
    "precondition (checked, else skipped and counted): the project end is not extended in either run",
    "'wide9' family: bases = the two ten-task projects of mc/props/wide.py with every single toggle, alone and with reversed declaration order (thorough: every subset of <= 2 of the 38 toggles); intruder = priority 1, 30 min or 10 h, on each of r1-r4, declared first, in the middle or last; pairs where a task is unscheduled or ends after the declared 8-week window in either run are skipped and counted",
    "'inhprio' family: leaves with an own priority (500 written out, or 600) one or two levels below a container that hands down 100 / 200 / 450; the added task's priority (300 / 460) lies between the container's and the leaves' - still strictly the lowest among the tasks that do work",
    "'msgate' family: every base task waits for a container of dated milestones (one or two of them, one or two levels deep); the added task (1 h / 8 h on either resource, declared first or last) is the only other candidate in the first scan",
    "'mixprio' family: forward bases (one task pinned) with an added lowest-priority backward task (alap + end) on the same resource and days, and the mirror image (backward base, added forward-pinned task); whole-slot efforts",
    "'alapext' family (open finding D55): backward-anchored work + a 40 / 60 h lowest-priority task that fits the declared window but triggers the scheduler's window extension; no precondition is applied there",
    "in backward (ALAP) projects intruders that depend on a base task are not generated: there the added task is a successor whose start is its predecessor's deadline, which C04 requires to be honoured",
]


def bases(tier):
    # a task waiting for a CONTAINER (declared before or after it) while lower-ranked work is ready
    for wrap in ("before", "after"):
        for ef in itertools.product((1, 3), repeat=3):
            for al in (("r1", "r1", "r1"), ("r1", "r2", "r1")):
                for pr in itertools.product((500, 700), repeat=3):
                    for wrap2 in (False, True):   # wrap2: the container's leaves sit two levels down (one leaf closes two levels at once)
                        yield {"n": 3, "L": 60, "eff": 1.0, "ef": ef, "al": al, "es": (), "pr": pr, "gap": 0, "pin": None, "leave": False, "lim": None,
                               "z": None, "alap": False, "wrap": wrap, "wrap2": wrap2}
    ns = (2,) if tier == "quick" else (2, 3)
    for n in ns:
        allocs = ("r1", "r2", "team") if n == 2 else ("r1",)
        for ef in itertools.product((1, 3), repeat=n):
            for al in itertools.product(allocs, repeat=n):
                for es in c07.edge_sets(n):
                    for pr in itertools.product((500, 700), repeat=n):
                        for leave, lim in ((False, None), (True, None), (False, ("r", "dailymax", "2h"))) + (((True, ("r", "dailymax", "2h")),) if tier != "quick" else ()):
                            if True:
                                yield {"n": n, "L": 60, "eff": 1.0, "ef": ef, "al": al, "es": es, "pr": pr, "gap": 0, "pin": None,
                                       "leave": leave, "lim": lim, "z": None, "alap": False}
                        yield {"n": n, "L": 60, "eff": 1.0, "ef": ef, "al": al, "es": es, "pr": pr, "gap": 0, "pin": None,
                               "leave": False, "lim": None, "z": None, "alap": True}


def intruders(tier):
    effs = (30, 180) if tier == "quick" else (30, 60, 180)
    for m in effs:
        for res in ("r1", "r2"):
            for pos in (("first", "last") if tier == "quick" else ("first", "mid", "last")):
                for pin in (None, "2025-01-07-10:00"):
                    yield {"m": m, "res": res, "pos": pos, "pin": pin}


def special_intruders():
    """intruders that depend on an existing task (nothing depends on THEM), ALAP without a deadline, milestones, huge effort"""
    for res in ("r1", "r2"):
        yield {"m": 60, "res": res, "pos": "last", "pin": None, "dep": True, "sched": "alap"}
        yield {"m": 60, "res": res, "pos": "first", "pin": None, "dep": True, "sched": None}
        yield {"m": 60, "res": res, "pos": "last", "pin": None, "dep": False, "sched": "alap"}
        yield {"m": 0, "res": res, "pos": "mid", "pin": None, "dep": True, "sched": None}
        yield {"m": 2400, "res": res, "pos": "last", "pin": None, "dep": False, "sched": None}


def universe(tier):
    ins = list(intruders(tier))
    sp = list(special_intruders())
    for b in bases(tier):
        for i in ins:
            yield {"base": b, "in": i}
        if not b["leave"] and not b["lim"]:
            for scen in (1, 2):
                for i in sp:
                    if b["alap"] and i["dep"]:
                        continue  # in a backward project a dependent task is a successor: it legitimately sets its predecessor's deadline (C04)
                    yield {"base": b, "in": i, "scen": scen}


def alapext(tier):
    """Backward-anchored work plus an added lowest-priority task that is large enough to trigger the scheduler's window extension
    although everything fits the declared window (the added task has a whole resource of its own): the open finding D55."""
    for proj_alap in (True, False):
        for a_h in (4, 10):
            for z_h in (40, 60):
                for zres in ("r2", "r1"):
                    for pos in ("first", "last"):
                        yield {"kind": "alapext", "palap": proj_alap, "a": a_h, "z": z_h, "zres": zres, "pos": pos}


def inhprio(tier):
    """Leaves that state their own priority (also the default value 500, written out) below containers that hand a LOWER priority
    down; the added task's priority lies between the two: it is still strictly the lowest among the tasks that do work."""
    for cp in (200, 100, 450):
        for own in (500, 600):
            for ip in (300, 460):
                if not (cp < ip < own):
                    continue
                for depth in (1, 2):
                    for alap in (False, True):
                        for pos in ("first", "last"):
                            for sib in (False, True):
                                yield {"kind": "inhprio", "cp": cp, "own": own, "ip": ip, "depth": depth, "alap": alap, "pos": pos, "sib": sib}


def inhprio_specs(it):
    x = {"id": "x", "effort": 480, "alloc": ["r1"], "prio": it["own"]}
    kids = [x] + ([{"id": "w", "effort": 240, "alloc": ["r2"]}] if it["sib"] else [])   # w inherits the container's priority, on another resource
    box = {"id": "g", "prio": it["cp"], "children": kids if it["depth"] == 1 else [{"id": "h", "children": kids}]}
    base = {"dur": "3w", "alap": it["alap"], "resources": [{"id": "r1"}, {"id": "r2"}], "tasks": [box, {"id": "top", "effort": 240, "alloc": ["r1"], "prio": 700}]}
    w = copy.deepcopy(base)
    zz = {"id": "zz", "effort": 480, "alloc": ["r1"], "prio": it["ip"]}
    w["tasks"].insert(0 if it["pos"] == "first" else len(w["tasks"]), zz)
    return base, w


def msgate(tier):
    """Every base task waits - directly or through a successor - for a container that holds nothing but dated milestones (complete
    before any work is placed): when the first scan starts, the added lowest-priority task is the only other candidate."""
    for n_ms in (1, 2):
        for depth in (1, 2):
            for res in ("r1", "r2"):
                for pos in ("first", "last"):
                    for m in (60, 480):
                        yield {"kind": "msgate", "n": n_ms, "depth": depth, "res": res, "pos": pos, "m": m}


def msgate_specs(it):
    ms = [{"id": f"k{i}", "milestone": True, "start": f"2025-01-06-{9 + i:02d}:00"} for i in range(it["n"])]
    gate = {"id": "K", "children": ms if it["depth"] == 1 else [{"id": "inner", "children": ms}]}
    base = {"dur": "3w", "resources": [{"id": "r1"}, {"id": "r2"}],
            "tasks": [gate, {"id": "h", "effort": 360, "alloc": ["r1"], "prio": 900, "deps": ["K"]}, {"id": "after", "effort": 120, "alloc": ["r2"], "deps": ["h"]}]}
    w = copy.deepcopy(base)
    zz = {"id": "zz", "effort": it["m"], "alloc": [it["res"]], "prio": 1}
    w["tasks"].insert(0 if it["pos"] == "first" else len(w["tasks"]), zz)
    return base, w


def mixprio(tier):
    """Mixed directions: forward base tasks (one pinned, higher priorities) and an added lowest-priority BACKWARD task (alap + end) that wants
    the same resource in the same days - and the mirror image: a backward project with an added lowest-priority forward-pinned task.
    Whole-slot efforts; the window is wide enough for everything."""
    for mirror in (False, True):
        for m in (120, 480):
            for res in ("r1", "r2"):
                for pos in ("first", "last"):
                    for day in (2, 3):
                        yield {"kind": "mixprio", "mirror": mirror, "m": m, "res": res, "pos": pos, "day": day}


def mixprio_specs(it):
    if not it["mirror"]:
        base = {"dur": "3w", "resources": [{"id": "r1"}, {"id": "r2"}],
                "tasks": [{"id": "a", "effort": 1440, "alloc": ["r1"], "prio": 800, "start": "2025-01-07-09:00"}, {"id": "b", "effort": 240, "alloc": ["r2"], "prio": 600, "deps": ["a"]},
                          {"id": "hi", "effort": 480, "alloc": ["r2"], "prio": 900}]}
        zz = {"id": "zz", "effort": it["m"], "alloc": [it["res"]], "prio": 1, "sched": "alap", "end": f"2025-01-{6 + it['day']:02d}-17:00"}
    else:
        base = {"dur": "3w", "alap": True, "resources": [{"id": "r1"}, {"id": "r2"}],
                "tasks": [{"id": "a", "effort": 1440, "alloc": ["r1"], "prio": 800, "end": "2025-01-16-17:00"}, {"id": "b", "effort": 240, "alloc": ["r2"], "prio": 600, "prec": ["a"]},
                          {"id": "hi", "effort": 480, "alloc": ["r2"], "prio": 900, "end": "2025-01-15-17:00"}]}
        zz = {"id": "zz", "effort": it["m"], "alloc": [it["res"]], "prio": 1, "sched": "asap", "start": f"2025-01-{12 + it['day']:02d}-09:00"}
    w = copy.deepcopy(base)
    w["tasks"].insert(0 if it["pos"] == "first" else len(w["tasks"]), zz)
    return base, w


def alapext_specs(it):
    a = {"id": "a", "effort": it["a"] * 60, "alloc": ["r1"]}
    if not it["palap"]:
        a["sched"] = "alap"   # task-level: anchored at the project end as well
    base = {"dur": "3w", "alap": it["palap"], "resources": [{"id": "r1"}, {"id": "r2"}], "tasks": [a, {"id": "b", "effort": 120, "alloc": ["r2"], "prio": 700}]}
    w = copy.deepcopy(base)
    zz = {"id": "zz", "effort": it["z"] * 60, "alloc": [it["zres"]], "prio": 1}
    w["tasks"].insert(0 if it["pos"] == "first" else len(w["tasks"]), zz)
    return base, w


def trait(item, clause, detail, fid):
    """Guards --learn: D55 may only be recorded for the alapext family (window extension moves backward anchors)."""
    return fid == "D55" and isinstance(item, dict) and item.get("kind") == "alapext" and clause == "disturbed"


def i_long(item):
    return item["in"]["m"] >= 180


def specs(item):
    if item.get("kind") == "wide9":
        from mc.props import wide
        return wide.specs9(item)
    if item.get("kind") == "alapext":
        return alapext_specs(item)
    if item.get("kind") == "inhprio":
        return inhprio_specs(item)
    if item.get("kind") == "msgate":
        return msgate_specs(item)
    if item.get("kind") == "mixprio":
        return mixprio_specs(item)
    b = item["base"]
    base = c07.to_spec(b)
    base["alap"] = b["alap"]
    withi = copy.deepcopy(base)
    i = item["in"]
    t = {"id": "zz", "effort": i["m"], "alloc": [i["res"]], "prio": 1}
    if not i["m"]:
        t = {"id": "zz", "milestone": True, "prio": 1}
    if i.get("dep"):
        first = base["tasks"][0]
        t["deps"] = [first["id"] if not first.get("children") else first["id"] + "." + first["children"][0]["id"]]
    if i.get("sched"):
        t["sched"] = i["sched"]
    if item.get("scen") == 2:
        base["scenarios"] = [("plan", [("s2", [])])]
        withi["scenarios"] = [("plan", [("s2", [])])]
    if i["pin"]:
        t["start"] = i["pin"]
        if b["alap"]:
            t["sched"] = "asap"
    pos = {"first": 0, "mid": 1, "last": len(withi["tasks"])}[i["pos"]]
    withi["tasks"].insert(pos, t)
    return base, withi


def evaluate(item):
    base, withi = specs(item)
    o1 = common.run_spec(base)
    o2 = common.run_spec(withi)
    dup = item.get("kind") == "wide9" and item["in"].get("dup")
    if dup and o2.get("error") and o2["error"][0] == "parse" and not o1.get("error"):
        return common.errored(item, o2, skip=True)   # a tree may refuse a repeated task id; judged only where it is accepted
    if o1.get("error") or o2.get("error"):
        return common.errored(item, o1 if o1.get("error") else o2)
    r = common.base_result(item, o2)
    r["tr"] += o1.get("placements", 0) + o1.get("bookings", 0)
    wide9 = item.get("kind") == "wide9"
    if item.get("kind") == "alapext":
        # everything fits the declared window by construction (<= 60 h on a resource that has 120 working hours): no precondition
        pass
    elif wide9:
        # larger projects: the scheduler may lengthen the window on its own (both runs may differ in that); what matters
        # is that everything fits the DECLARED horizon in both runs
        from mc.ref.calendar import parse_date
        from datetime import timedelta
        declared = parse_date(base.get("start", "2025-01-06")) + timedelta(weeks=8)
        late = [t["id"] for o in (o1, o2) for t in o["tasks"] for sc in range(o["nsc"])
                if not t["sched"][sc] or (t["end"][sc] and t["end"][sc] > declared)]
        if late:
            r["skip"] = True
            return r
    elif common.extended(o1, base) or common.extended(o2, withi):
        r["skip"] = True
        return r
    v = []
    t2 = {t["id"]: t for t in o2["tasks"]}
    moved = False
    for pos, t in enumerate(o1["tasks"]):
        u = t2[t["id"]] if not dup else o2["tasks"][pos]   # (a repeated id: the added task is declared last, the others keep their positions)
        for sc in range(o1["nsc"]):
            a = (t["sched"][sc], t["start"][sc], t["end"][sc])
            b = (u["sched"][sc], u["start"][sc], u["end"][sc])
            if a != b:
                v.append(("disturbed", f"{t['id']} (scenario {sc}): alone {a}, with lowest-priority task zz {b}"))
    zz = t2.get("zz") or t2.get("bg.zz")
    if wide9 or item.get("kind") in ("alapext", "inhprio", "msgate", "mixprio"):
        r["v"] = common.dedup(v)
        r["nt"] = True   # every resource of the wide bases carries base work
        return r
    # non-trivial: the intruder actually competes (shares a resource with a base task and got work or failed)
    r["nt"] = any(item["in"]["res"] in c07.ALLOCS[a] for a in item["base"]["al"])
    if i_long(item):
        r["nt"] = True
    # direct clause on the base run
    bt = [t for t in base["tasks"] if not t.get("children")] if not item["base"].get("wrap") else []
    for x, y in itertools.combinations(bt, 2):
        if x.get("deps") or y.get("deps") or x["alloc"] != y["alloc"] or len(x["alloc"]) != 1 or x["prio"] == y["prio"]:
            continue
        if any((d if isinstance(d, str) else d["ref"]) in (x["id"], y["id"]) for t in bt for d in t.get("deps", [])):
            continue
        hi, lo = (x, y) if x["prio"] > y["prio"] else (y, x)
        th = next(t for t in o1["tasks"] if t["id"] == hi["id"])
        tl = next(t for t in o1["tasks"] if t["id"] == lo["id"])
        if th["sched"][0] and tl["sched"][0]:
            if not item["base"]["alap"] and th["start"][0] > tl["start"][0]:
                v.append(("priority-order", f"{hi['id']} (prio {hi['prio']}) starts {th['start'][0]} after {lo['id']} (prio {lo['prio']}) {tl['start'][0]}"))
            if item["base"]["alap"] and th["end"][0] < tl["end"][0]:
                v.append(("priority-order", f"ALAP: {hi['id']} (prio {hi['prio']}) ends {th['end'][0]} before {lo['id']} (prio {lo['prio']}) {tl['end'][0]}"))
    r["v"] = common.dedup(v)
    return r


def payload(item, clause, detail):
    from mc import render
    base, withi = specs(item)
    return {"item": item, "detail": detail, "tjp_base": render.render(base), "tjp": render.render(withi)}


def sample(item):
    from mc import render
    base, withi = specs(item)
    return {"item": item, "tjp_with_intruder": render.render(withi)}


def run(ctx):
    st = Stats()
    explore(ctx, universe(ctx.tier), "mc.props.c09:evaluate", st, payload=payload, sample_of=sample, batch=10000)
    from mc.props import wide
    explore(ctx, wide.universe9(ctx.tier), "mc.props.c09:evaluate", st, payload=payload, sample_of=sample)
    explore(ctx, alapext(ctx.tier), "mc.props.c09:evaluate", st, payload=payload, sample_of=sample, trait=trait)
    explore(ctx, inhprio(ctx.tier), "mc.props.c09:evaluate", st, payload=payload, sample_of=sample)
    explore(ctx, msgate(ctx.tier), "mc.props.c09:evaluate", st, payload=payload, sample_of=sample)
    explore(ctx, mixprio(ctx.tier), "mc.props.c09:evaluate", st, payload=payload, sample_of=sample)
    common.vacuity_guard(ctx, st)
    cov = st.coverage(
        "all (base, intruder) pairs of the stated base universe x intruder alphabet, two real scheduler runs per pair; states = distinct "
        "observations of the run with intruder; transitions = placements + bookings of both runs; non-trivial = the intruder is allocated "
        "to a resource that a base task also uses")
    return ctx.finish(cov, ASSUME)


def replay(path):
    return common.generic_replay(path, evaluate)
