"""Shared evaluation helpers for the property modules (run inside workers)."""
from mc import observe, oracles, render


def run_spec(spec, monitor_ledger=False):
    """Render + run on the real code. With monitor_ledger the C01 sum/counter invariant is evaluated after
    every booking and after every task placement (every intermediate state of the run)."""
    observe.install_monitors()
    observe.reset_counters()
    inter = []
    if monitor_ledger:
        L = (spec.get("res_min") or 60) * 60

        def on_book(rs, idx, task, gained):
            lst = rs.slotTaskUsage.get(idx, [])
            tot = sum(q for _t, q in lst)
            if tot > L + 1e-6 and len(inter) < 3:
                inter.append(("overbooked", f"after booking {getattr(task, 'fullId', task)} in slot {idx} of "
                                            f"{rs.property.fullId}: {tot:.1f}s in a {L}s slot {[(t.fullId, q) for t, q in lst]}"))

        def on_task(ts, ok):
            proj = ts.project
            for r in proj.resources:
                d = r.data[ts.scenarioIdx] if r.data else None
                if d is None:
                    continue
                for s, lst in d.slotTaskUsage.items():
                    tot = sum(q for _t, q in lst)
                    u = d.slotSecondsUsed.get(s, 0.0)
                    if u < tot - 1e-6 and len(inter) < 3:
                        inter.append(("counter", f"after placing {ts.property.fullId}: {r.fullId} slot {s} availability counter "
                                                 f"{u:.1f}s < booked {tot:.1f}s"))

        observe.MON["on_book"], observe.MON["on_task"] = on_book, on_task
    try:
        text = render.render(spec)
        obs = observe.run_text(text)
    finally:
        observe.MON["on_book"] = observe.MON["on_task"] = None
    obs["bookings"] = observe.MON["bookings"]
    obs["placements"] = observe.MON["placements"]
    obs["slotwalk"] = observe.MON["slotwalk"]
    obs["intermediate"] = inter
    return obs


def base_result(spec, obs):
    return {"k": render.key(spec), "v": [], "nt": False, "s": observe.sig(obs), "tr": obs.get("placements", 0) + obs.get("bookings", 0)}


def errored(spec, obs, skip=False):
    """A run that raised. The universes of C01-C10 etc. contain only valid, schedulable projects, so an
    exception there means the property cannot be said to hold on that input: clause `crash`.
    (skip=True: count and skip instead - used where errors are expected inputs.)"""
    r = base_result(spec, obs)
    r["x"] = {"runs_with_exception": 1}
    if skip:
        r["skip"] = True
    else:
        r["v"] = [("crash", f"{obs['error']}")]
    return r


def dedup(vs, per_clause=2):
    seen, out = {}, []
    for c, d in vs:
        seen[c] = seen.get(c, 0) + 1
        if seen[c] <= per_clause:
            out.append((c, d))
    return out


def extended(obs, spec):
    """True when schedule() moved the project end beyond the declared one."""
    from mc.ref.calendar import parse_date
    import re
    from dateutil.relativedelta import relativedelta

    m = re.match(r"(\d+)([dwmy])", spec.get("dur", "3w"))
    n, u = int(m.group(1)), m.group(2)
    declared = parse_date(spec.get("start", "2025-01-06")) + relativedelta(**{{"d": "days", "w": "weeks", "m": "months", "y": "years"}[u]: n})
    return obs.get("pend") != declared


def generic_replay(path, evaluate):
    import json
    from mc import cyext

    p = json.load(open(path))
    cyext.install(p.get("mode", "rebuilt"))
    r = evaluate(p["item"])
    print(json.dumps(r, indent=1, default=str)[:3000])
    hit = [c for c, _d in r.get("v", []) if c == p.get("clause")]
    print("REPRODUCED" if hit else "not reproduced")
    return 1 if r.get("v") else 0


def vacuity_guard(ctx, st, frac=0.5):
    """A universe in which most runs were skipped decides nothing: that is a harness failure, not a pass."""
    if st.evaluations and st.skipped > frac * st.evaluations:
        import os, sys
        print(f"HARNESS-ERROR: {st.skipped} of {st.evaluations} runs were skipped (exceptions / preconditions); "
              f"the check would be vacuous")
        sys.stdout.flush()
        ctx.close()
        os._exit(3)
