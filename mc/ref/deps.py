"""RefDeps - predecessor edges re-derived from the spec (never from the parsed project).

Reference syntax: 'a.b' absolute path from the root; each leading '!' moves one level up from the
referring task ('!x' = sibling; for a top-level task '!x' is a top-level task). `precedes` on A naming B
is the edge B depends on A. Gap durations are calendar time: min, h, d = 24 h, w = 7 d, m = 30 d, y = 365 d.
A leaf inherits the edges of every enclosing container.
"""
import re
from mc.render import walk_tasks

UNIT = {"min": 60, "h": 3600, "d": 86400, "w": 7 * 86400, "m": 30 * 86400, "y": 365 * 86400}


def gap_seconds(g):
    if not g:
        return 0
    m = re.match(r"(\d+(?:\.\d+)?)(min|h|d|w|m|y)$", g)
    return float(m.group(1)) * UNIT[m.group(2)]


class RefDeps:
    def __init__(self, spec):
        self.order = []          # fullIds in declaration order
        self.node = {}
        self.parent = {}
        self.children = {}
        for fid, t, par in walk_tasks(spec.get("tasks")):
            self.order.append(fid)
            self.node[fid] = t
            self.parent[fid] = par
            self.children.setdefault(par, []).append(fid)
            self.children.setdefault(fid, [])
        self.unresolved = []
        self.own = {fid: [] for fid in self.order}   # fid -> [(pred, kind, gap_s)]
        self.gaplen = {fid: [] for fid in self.order}  # fid -> [(pred, working hours)]  (gaplength: 1d = 8h, 1w = 40h)
        for fid in self.order:
            t = self.node[fid]
            for d in t.get("deps") or []:
                ref, gap, kind = self._parts(d)
                p = self.resolve(fid, ref)
                if p is None:
                    self.unresolved.append((fid, ref))
                else:
                    self.own[fid].append((p, kind, gap))
                    if isinstance(d, dict) and d.get("gaplen"):
                        m = re.match(r"(\d+(?:\.\d+)?)(min|h|d|w)$", d["gaplen"])
                        self.gaplen[fid].append((p, float(m.group(1)) * {"min": 1 / 60.0, "h": 1, "d": 8, "w": 40}[m.group(2)]))
            for d in t.get("prec") or []:
                ref, gap, kind = self._parts(d)
                p = self.resolve(fid, ref)
                if p is None:
                    self.unresolved.append((fid, ref))
                elif not any(e[0] == fid for e in self.own[p]):
                    self.own[p].append((fid, kind, gap))   # the options of the precedes statement belong to the edge

    @staticmethod
    def _parts(d):
        if isinstance(d, str):
            return d, 0, "end"
        return d["ref"], gap_seconds(d.get("gap")), ("start" if d.get("onstart") else "end")

    def resolve(self, frm, ref):
        lvl = 0
        while ref.startswith("!"):
            lvl += 1
            ref = ref[1:]
        base = None
        if lvl:
            base = self.parent[frm]
            for _ in range(lvl - 1):
                if base is None:
                    return None
                base = self.parent[base]
        fid = (base + "." if base else "") + ref
        return fid if fid in self.node else None

    def is_leaf(self, fid):
        return not self.children[fid]

    def leaves(self):
        return [f for f in self.order if self.is_leaf(f)]

    def leaves_below(self, fid):
        if self.is_leaf(fid):
            return [fid]
        out = []
        for c in self.children[fid]:
            out += self.leaves_below(c)
        return out

    def ancestors(self, fid):
        out = []
        p = self.parent[fid]
        while p is not None:
            out.append(p)
            p = self.parent[p]
        return out

    def edges(self, fid):
        """All edges applying to fid: own + those of every ancestor."""
        out = list(self.own[fid])
        for a in self.ancestors(fid):
            out += self.own[a]
        return out

    def leaf_graph(self):
        """leaf -> set of predecessor leaves (a container predecessor stands for all its leaves)."""
        g = {}
        for lf in self.leaves():
            ps = set()
            for p, _k, _g in self.edges(lf):
                ps.update(self.leaves_below(p))
            g[lf] = ps
        return g

    def cyclic_or_behind(self):
        """Leaves that are on, or downstream of, a dependency cycle of the leaf graph."""
        g = self.leaf_graph()
        placed, changed = set(), True
        while changed:
            changed = False
            for lf, ps in g.items():
                if lf not in placed and ps <= placed:
                    placed.add(lf)
                    changed = True
        return set(g) - placed

    def acyclic(self):
        return not self.cyclic_or_behind()
