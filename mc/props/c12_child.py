"""Child process of C12: executes one operation history in a fresh interpreter and prints observations.

usage: python -m mc.props.c12_child <mode> <json list of ops>
ops: ["parse", i] | ["resched"] | ["reports"] | ["engine", i]
After the history every probe is parsed+scheduled once more and its observation signature printed.
"""
import hashlib
import io
import contextlib
import json
import os
import shutil
import sys
import tempfile


def main():
    mode, ops = sys.argv[1], json.loads(sys.argv[2])
    from mc import cyext

    cyext.install(mode)
    from mc import observe
    from mc.props import c12

    probes = c12.probes()
    out = {"steps": [], "final": {}, "globals": None}
    last = None  # (probe index, project)

    def full_sig(project, err, with_reports=True):
        o = observe.collect(project, err)
        s = observe.sig(o)
        if project is not None and err is None and with_reports:
            s += ":" + report_bytes(project)
        return s

    def report_bytes(project):
        from scriptplan.report import ReportContext

        d = tempfile.mkdtemp(prefix="verif-c12-")
        h = hashlib.sha1()
        try:
            old = project.outputDir
            project.outputDir = d
            for rp in project.reports:
                ctx = ReportContext(project, rp)
                ctx.push()
                try:
                    rp.generate()
                finally:
                    ctx.pop()
            project.outputDir = old
            for f in sorted(os.listdir(d)):
                h.update(f.encode())
                h.update(open(os.path.join(d, f), "rb").read())
        except BaseException as e:  # noqa
            h.update(("EXC:" + type(e).__name__).encode())
        finally:
            shutil.rmtree(d, ignore_errors=True)
        return h.hexdigest()[:12]

    def do_parse(i):
        buf = io.StringIO()
        with contextlib.redirect_stdout(buf), contextlib.redirect_stderr(buf):
            try:
                p = observe.parser().parse((probes + c12.hash_probes())[i])
                return p, None
            except BaseException as e:  # noqa
                return None, ("run", type(e).__name__, "")

    for op in ops:
        buf = io.StringIO()
        if op[0] == "parse":
            p, err = do_parse(op[1])
            last = (op[1], p)
            out["steps"].append(["parse", op[1], full_sig(p, err)])
        elif op[0] == "abort":
            # a parse+schedule call that dies in the middle of scheduling (injected MemoryError at the k-th task
            # placement): "earlier calls incl. failing ones" - whatever state it leaves behind must not leak
            from scriptplan.core.task_scenario import TaskScenario

            orig = TaskScenario.schedule
            cnt = {"n": 0}

            def boom(self):
                cnt["n"] += 1
                if cnt["n"] == 2:
                    raise MemoryError("injected by the C12 harness")
                return orig(self)

            TaskScenario.schedule = boom
            try:
                p, err = do_parse(op[1])
            finally:
                TaskScenario.schedule = orig
            last = None
            out["steps"].append(["abort", op[1], "aborted" if err else "completed"])
        elif op[0] == "resched":
            if last and last[1] is not None:
                with contextlib.redirect_stdout(buf), contextlib.redirect_stderr(buf):
                    try:
                        last[1].schedule()
                        err = None
                    except BaseException as e:  # noqa
                        err = ("run", type(e).__name__, "")
                out["steps"].append(["resched", last[0], full_sig(last[1], err)])
        elif op[0] == "reports":
            if last and last[1] is not None:
                with contextlib.redirect_stdout(buf), contextlib.redirect_stderr(buf):
                    rb = report_bytes(last[1])
                out["steps"].append(["reports", last[0], full_sig(last[1], None)])
        elif op[0] == "engine":
            from scriptplan.cli.main import run_scriptplan

            d = tempfile.mkdtemp(prefix="verif-c12e-")
            try:
                f = os.path.join(d, "in.tjp")
                open(f, "w").write(probes[op[1]])
                od = os.path.join(d, "out")
                os.mkdir(od)
                with contextlib.redirect_stdout(buf):
                    try:
                        ok, _msg = run_scriptplan(f, od)
                    except BaseException as e:  # noqa
                        ok = "EXC:" + type(e).__name__
                h = hashlib.sha1()
                for fn in sorted(os.listdir(od)):
                    h.update(fn.encode())
                    h.update(open(os.path.join(od, fn), "rb").read())
                out["steps"].append(["engine", op[1], f"{ok}:{h.hexdigest()[:12]}"])
            finally:
                shutil.rmtree(d, ignore_errors=True)
    for i in range(len(probes)):
        p, err = do_parse(i)
        out["final"][i] = full_sig(p, err)
    # process-wide state vector (non-vacuity: how many distinct global states the histories reach)
    import logging
    from scriptplan.core.property import AttributeBase
    from scriptplan.utils.time import TjTime
    from scriptplan.utils.message_handler import MessageHandlerInstance

    out["globals"] = [AttributeBase._mode, TjTime._tz, logging.getLogger().level, len(MessageHandlerInstance().messages) > 0,
                      MessageHandlerInstance()._errors if hasattr(MessageHandlerInstance(), "_errors") else None]
    sys.__stdout__.write("C12RESULT " + json.dumps(out) + "\n")


if __name__ == "__main__":
    main()
