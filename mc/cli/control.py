"""Controller side of the CLI harness: spawn `plan` under mc/cli/launcher.py and own its environment answers."""
import json
import os
import shutil
import subprocess
import sys
import tempfile
import time

HERE = os.path.dirname(os.path.abspath(__file__))
LAUNCHER = os.path.join(HERE, "launcher.py")
HORIZON_S = 120.0


class Proc:
    """One `plan` process. Events are read with next_event(); every event must be answered."""

    def __init__(self, args, stdin_bytes, cwd, tmpdir, repo=None, mode="rebuilt", label="p", env_extra=None):
        self.label = label
        self.cwd, self.tmpdir = cwd, tmpdir
        self.ev_r, ev_w = os.pipe()      # child -> controller
        an_r, self.an_w = os.pipe()      # controller -> child
        repo = repo or os.environ.get("VERIF_REPO", "/repo")
        env = dict(os.environ, TMPDIR=tmpdir, PYTHONHASHSEED="0", TZ="UTC", LC_ALL="C.UTF-8", PYTHONDONTWRITEBYTECODE="1", NO_COLOR="1")
        env.update(env_extra or {})   # a case may put the process into another locale / time zone
        self.p = subprocess.Popen([sys.executable, LAUNCHER, str(ev_w), str(an_r), repo, mode, "--"] + list(args), cwd=cwd, env=env,
                                  stdin=subprocess.PIPE, stdout=subprocess.PIPE, stderr=subprocess.PIPE, pass_fds=(ev_w, an_r))
        os.close(ev_w)
        os.close(an_r)
        self.evf = os.fdopen(self.ev_r, "r")
        self.anf = os.fdopen(self.an_w, "w")
        try:
            if stdin_bytes:
                self.p.stdin.write(stdin_bytes)
            self.p.stdin.close()
        except BrokenPipeError:
            pass
        self.p.stdin = None  # already closed: communicate() must not touch it
        self.trace = []
        self.exit_code = None
        self.done = False

    def next_event(self):
        """Blocks until the child reports its next step; None when it has exited."""
        line = self.evf.readline()
        if not line:
            self.done = True
            return None
        ev = json.loads(line)
        if ev.get("ev") == "exit":
            self.done = True
            self.exit_code = ev["code"]
            return None
        ev["path"] = self.rel(ev.get("path"))
        return ev

    def rel(self, p):
        if p is None:
            return None
        if p == self.tmpdir or p.startswith(self.tmpdir + os.sep):
            return "$TMP" + p[len(self.tmpdir):]
        if p == self.cwd or p.startswith(self.cwd + os.sep):
            return "$CWD" + p[len(self.cwd):]
        return p

    def answer(self, ans):
        try:
            self.anf.write(json.dumps(ans) + "\n")
            self.anf.flush()
        except BrokenPipeError:
            pass

    def finish(self):
        try:
            out, err = self.p.communicate(timeout=HORIZON_S)
        except subprocess.TimeoutExpired:
            self.p.kill()
            out, err = self.p.communicate()
            self.exit_code = -9
        for f in (self.evf, self.anf):
            try:
                f.close()
            except Exception:
                pass
        code = self.p.returncode if self.exit_code is None else self.exit_code
        return code, out, err

    def kill(self):
        try:
            self.p.kill()
        except Exception:
            pass
        self.finish()


class Sandbox:
    """cwd + private TMPDIR under one scratch directory (removed on close)."""

    def __init__(self, files=None, tmp_symlink=False):
        self.root = tempfile.mkdtemp(prefix="verif-cli-")
        self.cwd = os.path.join(self.root, "cwd")
        self.tmp = os.path.join(self.root, "tmp")
        os.mkdir(self.cwd)
        if tmp_symlink:   # TMPDIR is reached through a symbolic link (as /tmp on macOS, or /tmp -> /var/tmp)
            os.mkdir(os.path.join(self.root, "tmp_real"))
            os.symlink("tmp_real", self.tmp)
        else:
            os.mkdir(self.tmp)
        for name, data in (files or {}).items():
            with open(os.path.join(self.cwd, name), "wb") as f:  # name may carry surrogate escapes (non-UTF-8 bytes)
                f.write(data)
        self.before = self.listing(self.cwd)
        self.before_hash = self.hashes(self.cwd)

    @staticmethod
    def hashes(d):
        import hashlib
        out = {}
        for base, _dirs, files in os.walk(d):
            for n in files:
                p = os.path.join(base, n)
                with open(p, "rb") as f:
                    out[os.path.relpath(p, d)] = hashlib.sha256(f.read()).hexdigest()
        return out

    def new_files(self):
        """{relative path: sha256} of the files in cwd that are new or have other bytes than at the start"""
        return {k: v for k, v in self.hashes(self.cwd).items() if self.before_hash.get(k) != v}

    @staticmethod
    def listing(d):
        out = []
        for base, dirs, files in os.walk(d):
            for n in sorted(dirs + files):
                p = os.path.join(base, n)
                out.append((os.path.relpath(p, d), os.path.getsize(p) if os.path.isfile(p) else -1))
        return sorted(out)

    def leftovers(self):
        """(entries left in TMPDIR, cwd listing changed?)"""
        return [e[0] for e in self.listing(self.tmp)], self.listing(self.cwd) != self.before

    def close(self):
        shutil.rmtree(self.root, ignore_errors=True)


def run_single(args, stdin_bytes=None, files=None, decide=None, repo=None, mode="rebuilt", dirs=None, env=None, tmp_symlink=False):
    """Run one `plan` process to completion. decide(k, event) -> answer dict (default: {'act': 'go'}).
    Returns dict(code, stdout, stderr, trace, tmp_left, cwd_changed)."""
    sb = Sandbox(files, tmp_symlink=tmp_symlink)
    for d in dirs or []:
        os.mkdir(os.path.join(sb.cwd, d))
    sb.before = sb.listing(sb.cwd)
    try:
        pr = Proc(args, stdin_bytes, sb.cwd, sb.tmp, repo=repo, mode=mode, env_extra=env)
        t0 = time.time()
        k = 0
        while True:
            ev = pr.next_event()
            if ev is None:
                break
            k += 1
            ans = decide(k, ev) if decide else None
            ans = ans or {"act": "go"}
            ev["ans"] = ans
            pr.trace.append(ev)
            pr.answer(ans)
            if time.time() - t0 > HORIZON_S:
                pr.kill()
                return {"code": -9, "stdout": b"", "stderr": b"horizon exceeded", "trace": pr.trace, "tmp_left": [], "cwd_changed": False}
        code, out, err = pr.finish()
        left, changed = sb.leftovers()
        return {"code": code, "stdout": out, "stderr": err, "trace": pr.trace, "tmp_left": left, "cwd_changed": changed, "cwd_new": sb.new_files()}
    finally:
        sb.close()
