"""C07 - ASAP schedules equal the priority-ordered earliest-fit schedule (DESIGN 4, C07).

Complete small universe of core-dialect projects; the real scheduler's (scheduled, start, end) of every
leaf is compared with RefSched (mc/ref/sched.py), an independent implementation of the documented rule.
"""
import itertools

from mc.props import common
from mc.ref.sched import ref_schedule
from mc.run import Stats, explore

ASSUME = [
    "core dialect: slot-aligned calendars, gaps and pins; efforts are whole slots at the resource's efficiency; forward mode only",
    "project 2025-01-06 +3w, default calendar (or the listed zone shift), generous horizon: runs whose project end was extended are counted and skipped",
    "a task with an own pinned start has no dependencies in the universe (the statement does not rank pin against dependencies)",
    "alternatives are not part of the statement's rule and are not generated",
    "'wide7' family: the two ten-task bases of mc/props/wide.py restricted to the core dialect (efforts rounded to whole hours, no alternatives, slot-aligned gaps) x every subset of <= 2 (thorough: <= 3) of 27 toggles (resolutions 30/15/10, efficiency 0.5, weekend-only resource, leaves, vacation, resource/group/task limits, gaps, priorities, container pin, month boundary, zoned hours, split hours, multi-week effort, fifth resource, 5-level nesting, window across two daylight-saving switches, reversed declaration order, five-week project vacation, Sunday-to-Thursday night shift)",
]
NAMES = "abcd"
ALLOCS = {"r1": ["r1"], "r2": ["r2"], "team": ["r1", "r2"]}


def edge_sets(n, maxe=2):
    pairs = [(i, j) for i in range(n) for j in range(n) if i != j]  # j depends on i
    out = [()]
    for k in range(1, maxe + 1):
        for sub in itertools.combinations(pairs, k):
            # acyclic?
            adj = {i: set() for i in range(n)}
            for i, j in sub:
                adj[i].add(j)
            ok = True
            for s in range(n):
                stack, seen = list(adj[s]), set()
                while stack:
                    x = stack.pop()
                    if x == s:
                        ok = False
                        break
                    if x not in seen:
                        seen.add(x)
                        stack += adj[x]
                if not ok:
                    break
            if ok:
                out.append(sub)
    return out


def universe(tier):
    plans = []
    if tier == "quick":
        plans.append(dict(n=2, efforts=(1, 3), allocs=("r1", "r2", "team"), prios=(500, 700), Ls=(60,), effs=(1.0,), extra=False))
        plans.append(dict(n=3, efforts=(1, 3), allocs=("r1",), prios=(500, 700), Ls=(60,), effs=(1.0,), extra=False))
    else:
        plans.append(dict(n=2, efforts=(1, 2, 3), allocs=("r1", "r2", "team"), prios=(300, 500, 700), Ls=(60, 30, 15), effs=(1.0, 0.5), extra=True))
        plans.append(dict(n=3, efforts=(1, 3), allocs=("r1", "r2", "team"), prios=(500, 700), Ls=(60,), effs=(1.0,), extra=False))
        plans.append(dict(n=4, efforts=(1, 2), allocs=("r1",), prios=(500, 700), Ls=(60,), effs=(1.0,), extra=False, chains=True))
    # container predecessors: two tasks inside container g, a third task depending on g, declared after or before it
    for wrap in ("before", "after"):
        for ef in itertools.product((1, 3), repeat=3):
            for al in (("r1", "r1", "r1"), ("r1", "r2", "r1"), ("r2", "r2", "r1")):
                for pr in itertools.product((500, 700), repeat=3):
                    for es in ((), ((0, 1),), ((1, 0),)):
                        for gap in (0, 2):
                            for lim in (None, ("r", "dailymax", "2h")):
                                for wrap2 in (False, True):
                                    if wrap2 and (lim or gap):
                                        continue
                                    yield {"n": 3, "L": 60, "eff": 1.0, "ef": ef, "al": al, "es": es, "pr": pr, "gap": gap, "pin": None,
                                           "leave": False, "lim": lim, "z": None, "wrap": wrap, "wrap2": wrap2}
    for pl in plans:
        n = pl["n"]
        if pl.get("chains"):
            esets = [((0, 1), (1, 2), (2, 3)), ((0, 1), (0, 2), (1, 3), (2, 3)), ((3, 2), (2, 1), (1, 0)), ((0, 3), (1, 3), (2, 3)), ((0, 1), (0, 2), (0, 3))]
        else:
            esets = edge_sets(n)
        limits = [None, ("r", "dailymax", "2h")]
        if pl["extra"]:
            limits += [("r", "weeklymax", "5h"), ("g", "dailymax", "3h"), ("t", "dailymax", "2h")]
        zones = [None] + (["Asia/Tokyo"] if pl["extra"] else [])
        for L in pl["Ls"]:
            for eff in pl["effs"]:
                for ef in itertools.product(pl["efforts"], repeat=n):
                    for al in itertools.product(pl["allocs"], repeat=n):
                        for es in esets:
                            for pr in itertools.product(pl["prios"], repeat=n):
                                for gap in ((0, 2) if es else (0,)):
                                    for pin in [None] + list(range(n)):
                                        if pin is not None and any(j == pin for _i, j in es):
                                            continue
                                        for leave in (False, True):
                                            for lim in limits:
                                                for z in zones:
                                                    yield {"n": n, "L": L, "eff": eff, "ef": ef, "al": al, "es": es, "pr": pr, "gap": gap,
                                                           "pin": pin, "leave": leave, "lim": lim, "z": z}


def to_spec(it):
    L, n = it["L"], it["n"]
    tasks = []
    for i in range(n):
        m = it["ef"][i] * L * it["eff"]   # minutes of effort = whole slots at the resource's efficiency (7.5 min at L=15, eff 0.5)
        t = {"id": NAMES[i], "effort": int(m) if float(m).is_integer() else float(m), "alloc": list(ALLOCS[it["al"][i]]), "prio": it["pr"][i]}
        if it["pin"] == i:
            t["start"] = "2025-01-07-10:00"
        tasks.append(t)
    for i, j in it["es"]:
        d = {"ref": NAMES[i]}
        if it["gap"]:
            d["gap"] = f"{it['gap'] * L}min"
        tasks[j].setdefault("deps", []).append(d)
    r1 = {"id": "r1", "eff": it["eff"]}
    r2 = {"id": "r2", "eff": it["eff"]}
    if it["leave"]:
        r1["leaves"] = [{"k": "booking", "a": "2025-01-06-11:00", "b": "+6h"}]
    if it["z"]:
        # a shift given in local time that equals 09-17 UTC shifted: Tokyo 13:00-21:00 local = 04:00-12:00 UTC
        r1["hours"] = [("mon - fri", ["13:00 - 21:00"])]
        r1["tz"] = it["z"]
    resources = [r1, r2]
    if it.get("wrap"):
        # the first n-1 tasks live in a container g; the last task depends on the CONTAINER (plus the listed edges)
        inner = tasks[:-1]
        pre = "g.h." if it.get("wrap2") else "g."
        for t in tasks:
            for d in t.get("deps") or []:
                if d["ref"] in [x["id"] for x in inner]:
                    d["ref"] = pre + d["ref"]
        last = tasks[-1]
        last.setdefault("deps", []).append({"ref": "g"} if not it["gap"] else {"ref": "g", "gap": f"{it['gap'] * L}min"})
        box = {"id": "g", "children": inner if not it.get("wrap2") else [{"id": "h", "children": inner}]}   # wrap2: the last leaf closes two levels at once
        tasks = [box, last] if it["wrap"] == "before" else [last, box]
    lim = it["lim"]
    if lim:
        where, kind, val = lim
        if where == "r":
            r1["limits"] = {kind: val}
        elif where == "g":
            resources = [{"id": "grp", "limits": {kind: val}, "children": [r1, r2]}]
        else:
            tasks = [{"id": "box", "limits": {kind: val}, "children": tasks}]
            for t in tasks[0]["children"]:
                for d in t.get("deps") or []:
                    d["ref"] = "box." + d["ref"]
    return {"res_min": L if L != 60 else None, "resources": resources, "tasks": tasks}


def evaluate(item):
    if item.get("kind") == "wide7":
        from mc.props import wide
        spec = wide.to_spec7(item)
    else:
        spec = to_spec(item)
    obs = common.run_spec(spec)
    if obs.get("error"):
        return common.errored(item, obs)
    r = common.base_result(item, obs)
    if item.get("kind") == "wide7":
        # the scheduler may lengthen the window of these larger projects (a precaution derived from the sum of efforts);
        # the reference then works on the same, longer window
        ref = ref_schedule(spec, horizon_end=obs["pend"])
    elif common.extended(obs, spec):
        r["skip"] = True
        return r
    else:
        ref = ref_schedule(spec)
    v = []
    nt = False
    for t in obs["tasks"]:
        if not t["leaf"]:
            continue
        exp = ref[t["id"]]
        got = (t["sched"][0], t["start"][0] if t["sched"][0] else None, t["end"][0] if t["sched"][0] else None)
        if got != exp:
            v.append(("differs", f"{t['id']}: scheduler (scheduled,start,end)={got} reference={exp}"))
    starts = {e[1] for e in ref.values() if e[0]}
    nt = len(starts) > 1 or any(not e[0] for e in ref.values())
    r["v"] = common.dedup(v)
    r["nt"] = nt
    return r


def payload(item, clause, detail):
    from mc import render
    if item.get("kind") == "wide7":
        from mc.props import wide
        spec = wide.to_spec7(item)
    else:
        spec = to_spec(item)
    return {"item": item, "detail": detail, "spec": spec, "tjp": render.render(spec), "mode": item.get("mode", "rebuilt")}


def sample(item):
    from mc import render
    if item.get("kind") == "wide7":
        from mc.props import wide
        return {"item": item, "tjp": render.render(wide.to_spec7(item))}
    return {"item": item, "tjp": render.render(to_spec(item))}


def run(ctx):
    st = Stats()
    explore(ctx, universe(ctx.tier), "mc.props.c07:evaluate", st, payload=payload, sample_of=sample)
    from mc.props import wide
    explore(ctx, wide.universe7(ctx.tier), "mc.props.c07:evaluate", st, payload=payload, sample_of=sample)
    # the same family (<= 1 toggle; thorough <= 2) on the pure-Python fallbacks
    pure = [dict(it, mode="blocked") for it in wide.universe7(ctx.tier) if len(it["t"]) <= (1 if ctx.tier == "quick" else 2)]
    explore(ctx, pure, "mc.props.c07:evaluate", st, mode="blocked", payload=payload, sample_of=sample)
    common.vacuity_guard(ctx, st)
    cov = st.coverage(
        "container-predecessor projects (two tasks in a container, a third depending on the container, either declaration order) + complete product universe: n tasks x efforts x allocation per task x every acyclic edge set (<= 2 edges, either declaration "
        "direction; n=4: chains/diamonds/fans) x priority vectors x gap x pinned task x leave x limit (x zone, resolution, efficiency in "
        "thorough); states = distinct schedule observations; transitions = placements + bookings of the real scheduler; non-trivial = "
        "the reference schedule does not start all tasks at the same instant (contention, a dependency, a pin, a leave or a limit was active) or leaves a task unscheduled")
    return ctx.finish(cov, ASSUME)


def replay(path):
    return common.generic_replay(path, evaluate)
