"""Oracles over (spec, observation) pairs. Each returns a list of (clause, detail) violations.

The observation comes from mc.observe (real code); the expectations are recomputed from the spec with
the reference models under mc/ref. Times are naive datetimes on the project clock.
"""
from datetime import timedelta

from mc.ref.calendar import RefCalendar, parse_date
from mc.ref.deps import RefDeps
from mc.render import walk_resources, walk_tasks

EPS = 1e-6


def slot_start(obs, s):
    return obs["pstart"] + timedelta(seconds=s * obs["gran"])


def task_index(obs):
    return {t["id"]: t for t in obs["tasks"]}


def res_specs(spec):
    """short id -> (resource spec dict, fullId, parent fullId) ; fullId -> short id"""
    out, full2short = {}, {}
    for full, r, par in walk_resources(spec.get("resources")):
        out[r["id"]] = (r, full, par)
        full2short[full] = r["id"]
    return out, full2short


def entries_by_task(obs, sc=0):
    """task fullId -> {resource fullId: {slot: seconds}}"""
    out = {}
    for r, slots in obs["ledger"].get(sc, {}).items():
        for s, lst in slots.items():
            for t, q in lst:
                d = out.setdefault(t, {}).setdefault(r, {})
                d[s] = d.get(s, 0.0) + q
    return out


# ---- C01 -------------------------------------------------------------------------------------

def c01_ledger(obs, sc=0):
    """No double booking: per leaf resource and slot, sum <= L; availability counter never below the
    sum; portions can be laid out disjointly inside each task's reported [start, end] ∩ slot."""
    v = []
    L = obs["gran"]
    tix = task_index(obs)
    leaf_res = {r["id"] for r in obs["res"] if r["leaf"]}
    shared = 0
    # the clock: the project's own slot -> instant map must put slot s at start + s * L, so that different slots never
    # cover the same instants (a resource booked in two slots would otherwise work for two tasks at once)
    bad_clock = 0
    for s, d in sorted((obs.get("slotdates") or {}).items()):
        if d != slot_start(obs, s) and bad_clock < 2:
            bad_clock += 1
            v.append(("slot-clock", f"slot {s} is mapped to {d} by the project, but slots are {L}s long from {obs['pstart']}: expected {slot_start(obs, s)}"))
    for r, slots in obs["ledger"].get(sc, {}).items():
        if r not in leaf_res:
            v.append(("group-booked", f"resource group {r} carries ledger entries"))
            continue
        used = obs["used"].get(sc, {}).get(r, {})
        for s, lst in slots.items():
            tot = sum(q for _t, q in lst)
            if any(q < -EPS for _t, q in lst):
                v.append(("negative", f"{r} slot {s}: negative portion {lst}"))
            if tot > L + EPS:
                v.append(("overbooked", f"{r} slot {s} ({slot_start(obs, s)}): {tot:.1f}s booked in a {L}s slot: {lst}"))
            u = used.get(s, 0.0)
            if u < tot - EPS:
                v.append(("counter", f"{r} slot {s}: availability counter {u:.1f}s < booked {tot:.1f}s {lst}"))
            if len(lst) > 1:
                shared += 1
                # interval feasibility (necessary condition for any disjoint layout)
                a0 = slot_start(obs, s)
                wins = []
                for t, q in lst:
                    rec = tix.get(t)
                    if not rec or not rec["sched"][sc] or rec["start"][sc] is None or rec["end"][sc] is None:
                        continue
                    lo = max(0.0, (rec["start"][sc] - a0).total_seconds())
                    hi = min(float(L), (rec["end"][sc] - a0).total_seconds())
                    wins.append((lo, hi, q, t))
                pts = sorted({w[0] for w in wins} | {w[1] for w in wins})
                bad = False
                for i, a in enumerate(pts):
                    for b in pts[i:]:
                        inside = [w for w in wins if w[0] >= a - EPS and w[1] <= b + EPS]
                        need = sum(w[2] for w in inside)
                        if need > max(0.0, b - a) + 1.0 * len(inside) + EPS:
                            v.append(("overlap", f"{r} slot {s} ({a0}): tasks {[w[3] for w in inside]} need {need:.0f}s "
                                                 f"inside a {b - a:.0f}s window of their reported intervals"))
                            bad = True
                            break
                    if bad:
                        break
    return v, shared


# ---- C03 -------------------------------------------------------------------------------------

def c03_effort(spec, obs, sc=0):
    v = []
    rs, full2short = res_specs(spec)
    eff = {r["id"]: (r["eff"] if r["eff"] is not None else 1.0) for r in obs["res"]}
    ebt = entries_by_task(obs, sc)
    L = obs["gran"]
    for fid, t, _par in walk_tasks(spec.get("tasks")):
        rec = next((x for x in obs["tasks"] if x["id"] == fid), None)
        if rec is None or not rec["leaf"] or not rec["sched"][sc]:
            continue
        effort_h = rec["effort"][sc] or 0
        if not effort_h or rec["milestone"]:
            if ebt.get(fid):
                v.append(("milestone-booked", f"{fid} has no effort but holds bookings"))
            continue
        byres = ebt.get(fid, {})
        need = effort_h * 3600.0
        fwd = rec["forward"][sc] is not False
        team_effs = {eff.get(r, 1.0) or 1.0 for r in byres}
        mixed = len(byres) > 1 and len(team_effs) > 1 and not t.get("alt")
        if mixed:
            # the statement does not say whose efficiency weights the time of a team with unequal members: the
            # common booked time must equal the effort under the efficiency of at least one member
            works = [(r, sum(slots.values()) * (eff.get(r, 1.0) or 1.0)) for r, slots in byres.items()]
            if not any(abs(w - need) <= max(1.0, max(team_effs)) + EPS for _r, w in works):
                v.append(("effort", f"{fid} (team of unequal efficiencies): booked work per member {works} vs effort {need:.1f}s"))
        for r, slots in byres.items():
            e = eff.get(r, 1.0) or 1.0
            work = sum(q * e for q in slots.values())
            if not mixed and abs(work - need) > max(1.0, e) + EPS:
                v.append(("effort", f"{fid} on {r}: booked work {work:.1f}s (eff {e}) vs effort {need:.1f}s"))
            if mixed:
                e = next((ee for ee in sorted(team_effs) if abs(sum(slots.values()) * ee - need) <= max(1.0, ee) + EPS), e)
            # no further slot beyond the one where the sum reaches the effort
            acc = 0.0
            order = sorted(slots) if fwd else sorted(slots, reverse=True)
            for i, s in enumerate(order):
                acc += slots[s] * e
                if acc >= need - 1e-3 and i < len(order) - 1:
                    v.append(("beyond", f"{fid} on {r}: effort reached in slot {s} but slots {order[i + 1:]} are also booked"))
                    break
        if not byres:
            v.append(("effort", f"{fid} reported scheduled with effort {need:.0f}s but has no bookings"))
        alloc, alt = t.get("alloc") or [], t.get("alt") or []
        carriers = {full2short.get(r, r) for r in byres}
        if alt:
            cands = [c for c in alloc + alt if c in carriers]
            if len(cands) != 1:
                v.append(("alternative", f"{fid}: candidates carrying work = {sorted(carriers)} (exactly one expected)"))
        elif len(alloc) > 1:
            if carriers != set(alloc):
                v.append(("team", f"{fid}: team {alloc} but work on {sorted(carriers)}"))
            sets = [tuple(sorted((s, round(q, 3)) for s, q in slots.items())) for slots in byres.values()]
            if len(set(sets)) > 1:
                v.append(("team", f"{fid}: members are booked for different instants: {byres}"))
    return v


# ---- C06 -------------------------------------------------------------------------------------

def c06_frame(spec, obs, sc=0):
    v = []
    L = obs["gran"]
    ebt = entries_by_task(obs, sc)
    nwork = 0
    for rec in obs["tasks"]:
        if not rec["leaf"] or not rec["sched"][sc]:
            continue
        st, en = rec["start"][sc], rec["end"][sc]
        byres = ebt.get(rec["id"])
        if st is None or en is None:
            v.append(("missing-date", f"{rec['id']} scheduled but start={st} end={en}"))
            continue
        if st > en:
            v.append(("start-after-end", f"{rec['id']}: start {st} > end {en}"))
        if not byres:
            continue
        nwork += 1
        if not st < en:
            v.append(("zero-length", f"{rec['id']} has work but start {st} = end {en}"))
        for r, slots in byres.items():
            # a portion below a microsecond is rounding noise, not work: it must not exist (it makes the task 'work' in a slot
            # in which it does nothing, and drags its reported start / end there)
            noise = [s for s, q in slots.items() if 0 <= q < 1e-6]
            if noise:
                v.append(("sliver", f"{rec['id']} on {r}: {slots[noise[0]]:.3g}s booked in slot {slot_start(obs, noise[0])} (rounding noise carried as a booking)"))
                slots = {s: q for s, q in slots.items() if q >= 1e-6}
                if not slots:
                    continue
            s1, s2 = min(slots), max(slots)
            q1, q2 = slots[s1], slots[s2]
            a1, a2 = slot_start(obs, s1), slot_start(obs, s2)
            tol = timedelta(seconds=1)
            if not (a1 - tol <= st <= a1 + timedelta(seconds=L - q1) + tol):
                v.append(("start-frame", f"{rec['id']} on {r}: start {st} but first booked slot {a1} holds {q1:.0f}s "
                                         f"(start must lie in [{a1}, {a1 + timedelta(seconds=L - q1)}])"))
            if not (a2 + timedelta(seconds=q2) - tol <= en <= a2 + timedelta(seconds=L) + tol):
                v.append(("end-frame", f"{rec['id']} on {r}: end {en} but last booked slot {a2} holds {q2:.0f}s "
                                       f"(end must lie in [{a2 + timedelta(seconds=q2)}, {a2 + timedelta(seconds=L)}])"))
    return v, nwork


def c06_milestones(spec, obs, sc=0):
    """A milestone has start = end at its dependency bound (or its pin)."""
    v = []
    deps = RefDeps(spec)
    tix = task_index(obs)
    n = 0
    for fid in deps.leaves():
        t = deps.node[fid]
        rec = tix.get(fid)
        if rec is None or not rec["sched"][sc]:
            continue
        if not (t.get("milestone") or not t.get("effort")):
            continue
        st, en = rec["start"][sc], rec["end"][sc]
        if st != en:
            v.append(("milestone-length", f"milestone {fid}: start {st} != end {en}"))
        if (not t.get("start")) and (not t.get("end")) and rec["forward"][sc] is False:
            # backward: the bound is the earliest successor start minus its gap (successors = leaves with an own or
            # inherited on-end edge naming this milestone); judged when there is one and no enclosing container is dated
            if any(deps.node[a].get("end") or deps.node[a].get("start") for a in deps.ancestors(fid)):
                continue
            succ = [(o, g) for o in deps.leaves() if o != fid for p, k, g in deps.edges(o) if p == fid and k == "end"]
            if succ and all(tix.get(o) and tix[o]["sched"][sc] and tix[o]["start"][sc] is not None for o, _g in succ):
                bound = min(tix[o]["start"][sc] - timedelta(seconds=g) for o, g in succ)
                n += 1
                if st != bound:
                    v.append(("milestone-bound", f"backward milestone {fid} at {st}, earliest successor start minus gap is {bound}"))
            continue
        if t.get("start") or t.get("end") or rec["forward"][sc] is False:
            continue
        edges = deps.edges(fid)
        if not edges:
            continue
        bound = obs["pstart"]
        # a start typed on an enclosing container reaches the milestone by inheritance (the nearest one): it is a lower bound
        from mc.ref.calendar import parse_date
        for a in deps.ancestors(fid):
            if deps.node[a].get("start"):
                bound = max(bound, parse_date(deps.node[a]["start"]))
                break
        okb = True
        for p, k, g in edges:
            pr = tix.get(p)
            if not pr or not pr["sched"][sc]:
                okb = False
                break
            at = (pr["start"][sc] if k == "start" else pr["end"][sc]) + timedelta(seconds=g)
            bound = max(bound, at)
        if okb:
            n += 1
            if st != bound:
                v.append(("milestone-bound", f"milestone {fid} at {st}, dependency bound is {bound}"))
    return v, n


# ---- C02 -------------------------------------------------------------------------------------

def c02_calendar(spec, obs, sc=0, cal=None):
    v = []
    cal = cal or RefCalendar(spec)
    _rs, full2short = res_specs(spec)
    L = obs["gran"]
    n = 0
    for r, slots in obs["ledger"].get(sc, {}).items():
        rid = full2short.get(r)
        if rid is None or rid not in cal.res:
            continue
        for s, lst in slots.items():
            tot = sum(q for _t, q in lst)
            if tot <= EPS:
                continue
            n += 1
            w = cal.working_seconds(rid, s)
            if w <= 0:
                v.append(("outside", f"{r}: {tot:.0f}s booked in slot {slot_start(obs, s)} which holds no working time"))
            elif tot > w + EPS:
                v.append(("straddle", f"{r}: {tot:.0f}s booked in slot {slot_start(obs, s)} which holds only {w}s of working time"))
    return v, n


# ---- C05 -------------------------------------------------------------------------------------

def _limit_seconds(val):
    import re

    m = re.match(r"(\d+(?:\.\d+)?)(min|h|d|w)", val)
    return float(m.group(1)) * {"min": 60, "h": 3600, "d": 8 * 3600, "w": 40 * 3600}[m.group(2)]


def c05_limits(spec, obs, sc=0):
    """Booked seconds per calendar day / ISO week of every limited entity <= its limit."""
    v = []
    rs, full2short = res_specs(spec)
    led = obs["ledger"].get(sc, {})
    binding = 0

    def agg(pred_res, pred_task):
        day, week = {}, {}
        for r, slots in led.items():
            rid = full2short.get(r, r)
            if not pred_res(rid):
                continue
            for s, lst in slots.items():
                t0 = slot_start(obs, s)
                for t, q in lst:
                    if pred_task(t):
                        day[t0.date()] = day.get(t0.date(), 0.0) + q
                        y, w, _ = t0.isocalendar()
                        week[(y, w)] = week.get((y, w), 0.0) + q
        return day, week

    def check(name, lim, pred_res, pred_task):
        nonlocal binding
        for kind, val in ((lim or {}).items() if isinstance(lim or {}, dict) else lim):
            only = None
            if isinstance(val, tuple):
                val, only = val
            cap = _limit_seconds(val)
            pr = (lambda rid, only=only: pred_res(rid) and rid in only) if only else pred_res
            day, week = agg(pr, pred_task)
            table = day if kind == "dailymax" else week
            for per, q in table.items():
                if q >= cap - EPS:
                    binding += 1
                if q > cap + EPS:
                    v.append((kind, f"{name}: {q / 3600:.2f}h booked in {per} exceeds {kind} {val}"))

    # resources and groups
    members = {}
    for full, r, par in walk_resources(spec.get("resources")):
        members[r["id"]] = {x["id"] for _f, x, _p in walk_resources([r])}
    for full, r, par in walk_resources(spec.get("resources")):
        if r.get("limits"):
            ms = members[r["id"]]
            check(f"resource {r['id']}", r["limits"], lambda rid, ms=ms: rid in ms, lambda t: True)
    for fid, t, par in walk_tasks(spec.get("tasks")):
        if t.get("limits"):
            check(f"task {fid}", t["limits"], lambda rid: True, lambda x, fid=fid: x == fid or x.startswith(fid + "."))
    return v, binding


# ---- C10 -------------------------------------------------------------------------------------

def c10_containers(spec, obs, sc=0):
    v = []
    kids = {}
    for t in obs["tasks"]:
        kids.setdefault(t["parent"], []).append(t)
    ncont = 0
    for t in obs["tasks"]:
        if t["leaf"]:
            continue
        ncont += 1
        ch = kids.get(t["id"], [])
        all_s = all(c["sched"][sc] for c in ch)
        if t["sched"][sc] != all_s:
            v.append(("container-flag", f"container {t['id']} scheduled={t['sched'][sc]} but children scheduled="
                                        f"{[(c['id'], c['sched'][sc]) for c in ch]}"))
        elif all_s:
            starts = [c["start"][sc] for c in ch]
            ends = [c["end"][sc] for c in ch]
            if None in starts or None in ends:
                v.append(("container-dates", f"container {t['id']}: a scheduled child has no date {starts} {ends}"))
                continue
            if t["start"][sc] != min(starts):
                v.append(("container-start", f"container {t['id']} start {t['start'][sc]} != earliest child start {min(starts)}"))
            if t["end"][sc] != max(ends):
                v.append(("container-end", f"container {t['id']} end {t['end'][sc]} != latest child end {max(ends)}"))
    leaf_tasks = {t["id"] for t in obs["tasks"] if t["leaf"]}
    leaf_res = {r["id"] for r in obs["res"] if r["leaf"]}
    for r, slots in obs["ledger"].get(sc, {}).items():
        if r not in leaf_res and slots:
            v.append(("group-booked", f"resource group {r} occupies time: {list(slots)[:3]}"))
        for s, lst in slots.items():
            for t, _q in lst:
                if t not in leaf_tasks:
                    v.append(("container-booked", f"container task {t} occupies {r} slot {s}"))
    return v, ncont


# ---- C04 -------------------------------------------------------------------------------------

def c04_deps(spec, obs, sc=0):
    v = []
    deps = RefDeps(spec)
    tix = task_index(obs)
    tight = 0
    checked = 0
    for fid in deps.order:
        t = deps.node[fid]
        rec = tix.get(fid)
        if rec is None or not rec["sched"][sc]:
            continue
        fwd = rec["forward"][sc] is not False
        if fwd and t.get("start"):
            continue
        if (not fwd) and t.get("end"):
            continue
        if not deps.is_leaf(fid):
            continue  # container dates are summaries (C10); their edges are checked on every leaf below
        for p, k, g in deps.edges(fid):
            pr = tix.get(p)
            if not pr or not pr["sched"][sc]:
                continue
            if k == "start" and not fwd:
                continue  # on-start edges in backward mode are not claimed
            at = pr["start"][sc] if k == "start" else pr["end"][sc]
            if at is None or rec["start"][sc] is None:
                continue
            bound = at + timedelta(seconds=g)
            checked += 1
            if rec["start"][sc] < bound:
                v.append(("dependency", f"{fid} starts {rec['start'][sc]} before {p}.{'start' if k == 'start' else 'end'} "
                                        f"{at} + gap {g:.0f}s = {bound} ({'ASAP' if fwd else 'ALAP'})"))
            elif rec["start"][sc] - bound < timedelta(seconds=obs["gran"]):
                tight += 1
        # gaplength edges (forward only): the predecessor's end advanced by that many working hours of the project calendar
        if fwd:
            gl = [(p, h) for a in [fid] + list(deps.ancestors(fid)) for p, h in deps.gaplen.get(a, [])]
            if gl:
                cal = RefCalendar(spec)
                for p, hours in gl:
                    pr = tix.get(p)
                    if not pr or not pr["sched"][sc] or pr["end"][sc] is None or rec["start"][sc] is None:
                        continue
                    bound = cal.advance_working(pr["end"][sc], hours)
                    checked += 1
                    if rec["start"][sc] < bound:
                        v.append(("gaplength", f"{fid} starts {rec['start'][sc]} before {p}.end {pr['end'][sc]} + {hours} working hours of the project calendar = {bound}"))
    return v, tight, checked


# ---- C08 -------------------------------------------------------------------------------------

def c08_idle(spec, obs, sc=0, cal=None):
    """No eligible working time left idle, slot-granular (see DESIGN C08). Only tasks on unlimited
    resources are judged; a slot counts as idle if it is working for every allocated resource for its
    whole length and carries zero booked seconds (of any task) in the final ledger."""
    v = []
    cal = cal or RefCalendar(spec)
    deps = RefDeps(spec)
    rs, full2short = res_specs(spec)
    short2full = {s: f for f, s in full2short.items()}
    tix = task_index(obs)
    L = obs["gran"]
    led = obs["ledger"].get(sc, {})
    ebt = entries_by_task(obs, sc)
    spans = 0

    def limited(rid):
        r, full, par = rs[rid]
        if r.get("limits"):
            return True
        while par:
            pshort = full2short[par]
            if rs[pshort][0].get("limits"):
                return True
            par = rs[pshort][2]
        return False

    def slot_free(rids, s, partial=False):
        """every allocated resource works the whole slot and the slot is unbooked. With partial=True (forward tasks
        only: 'an ASAP task never waits while its resource could work for it') a slot that still has >= 1 s free
        counts too: forward slots fill from the left, so the free part is the tail of the slot, and bookings only
        ever shrink when their owner finishes, so time free in the final ledger was free when the task passed."""
        for rid in rids:
            if not cal.whole_slot_working(rid, s):
                return False
            lst = led.get(short2full[rid], {}).get(s, [])
            taken = max(sum(q for _t, q in lst), obs["used"].get(sc, {}).get(short2full[rid], {}).get(s, 0.0))
            if partial:
                if L - taken < 1.0:
                    return False
            elif taken > EPS:
                return False
        return True

    def sidx(t):
        return int((t - obs["pstart"]).total_seconds() // L)

    for fid in deps.leaves():
        t = deps.node[fid]
        rec = tix.get(fid)
        if rec is None or not rec["sched"][sc] or not t.get("effort") or t.get("milestone"):
            continue
        alloc = t.get("alloc") or []
        if not alloc or t.get("alt") or any(limited(r) for r in alloc):
            continue
        if t.get("limits") or any(deps.node[a].get("limits") for a in deps.ancestors(fid)):
            continue
        mine = ebt.get(fid, {})
        if not mine:
            continue
        fwd = rec["forward"][sc] is not False
        if t.get("sched") == "asap" and t.get("start") and not fwd:
            # the text pins this task forward ('scheduling asap' with a start of its own): whatever is anchored downstream of it,
            # it is an ASAP task and is judged as one
            v.append(("idle-direction", f"{fid} states 'scheduling asap' with start {t['start']} but was scheduled backward "
                                        f"({rec['start'][sc]} - {rec['end'][sc]})"))
            continue
        slots = sorted({s for r in mine.values() for s in r})
        if fwd:
            bound = obs["pstart"]
            pin = t.get("start") or next((deps.node[a].get("start") for a in deps.ancestors(fid) if deps.node[a].get("start")), None)
            if pin:
                bound = max(bound, parse_date(pin))
            ok = True
            if not t.get("start"):
                for p, k, g in deps.edges(fid):
                    pr = tix.get(p)
                    if not pr or not pr["sched"][sc]:
                        ok = False
                        break
                    at = pr["start"][sc] if k == "start" else pr["end"][sc]
                    bound = max(bound, at + timedelta(seconds=g))
            if not ok:
                continue
            # gaplength edges: the predecessor's end advanced by that many working hours of the PROJECT calendar
            if not t.get("start"):
                for a in [fid] + list(deps.ancestors(fid)):
                    for p, hours in deps.gaplen.get(a, []):
                        pr = tix.get(p)
                        if pr and pr["sched"][sc] and pr["end"][sc] is not None:
                            bound = max(bound, cal.advance_working(pr["end"][sc], hours))
            b = sidx(bound)
            first = b if slot_start(obs, b) == bound else b + 1
            last = slots[-1]
            # sub-slot clause: a task that first finds work in a slot after the bound's slot, and has that slot
            # to itself, starts at the beginning of that slot (the bound's intra-slot offset does not carry over)
            s1 = slots[0]
            if s1 > b and rec["start"][sc] is not None:
                alone = all(len(led.get(short2full[r], {}).get(s1, [])) <= 1 for r in alloc)
                if alone and rec["start"][sc] > slot_start(obs, s1) + timedelta(seconds=1):
                    v.append(("late-start", f"{fid}: bound {bound}, first work in slot {slot_start(obs, s1)} which it has to itself, "
                                            f"but it starts only at {rec['start'][sc]}"))
            # the bound's own slot: when the bound lies inside slot b, that slot is working for every allocated resource and
            # nothing at all is booked in it in the final ledger (bookings only shrink, so it was empty when the task was
            # placed), the task starts in it - it does not wait for the next slot boundary
            if slot_start(obs, b) != bound and s1 > b and all(cal.whole_slot_working(r, b) for r in alloc) and \
                    all(not led.get(short2full[r], {}).get(b) for r in alloc):
                v.append(("idle-bound-slot", f"{fid}: bound {bound} lies inside the working, entirely unbooked slot {slot_start(obs, b)} of {alloc}, "
                                             f"but the task first works in slot {slot_start(obs, s1)}"))
            if last - first >= 2:
                spans += 1
            for s in range(first, last):
                if s in slots:
                    continue
                if slot_free(alloc, s, partial=True):
                    v.append(("idle-asap", f"{fid} (bound {bound}, last work in slot {slot_start(obs, last)}) left slot "
                                           f"{slot_start(obs, s)} of {alloc} working and unbooked"))
                    break
        else:
            deadline = obs["pend"]
            inherited_end = next((deps.node[a].get("end") for a in deps.ancestors(fid) if deps.node[a].get("end")), None)
            if inherited_end:
                deadline = min(deadline, parse_date(inherited_end))
            if t.get("end"):
                deadline = min(deadline, parse_date(t["end"]))
            else:
                # (a deadline inherited from a dated container does not switch the task's successors off)
                # successors: tasks having an on-end edge to fid
                for other in deps.leaves():
                    for p, k, g in deps.edges(other):
                        if k == "end" and fid in deps.leaves_below(p):
                            orc = tix.get(other)
                            if orc and orc["sched"][sc] and orc["start"][sc] is not None:
                                deadline = min(deadline, orc["start"][sc] - timedelta(seconds=g))
            en = rec["end"][sc]
            if en > deadline:
                v.append(("alap-late", f"{fid} ends {en} after its deadline {deadline}"))
                continue
            first = slots[-1] + 1
            d = sidx(deadline)
            lastx = d  # exclusive
            if lastx - first >= 2:
                spans += 1
            for s in range(first, lastx):
                if slot_free(alloc, s):
                    v.append(("idle-alap", f"{fid} (deadline {deadline}, ends {en}) left slot {slot_start(obs, s)} of {alloc} "
                                           f"working and unbooked between its end and the deadline"))
                    break
    return v, spans
