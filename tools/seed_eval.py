#!/usr/bin/env python3
"""Evaluate a seeded breaking change against the checks.

  tools/seed_eval.py <seed-id> <dir-with-patch.diff+demo.py> <PROP> [more props ...] [--tier quick|thorough] [--keep]

1. fresh scratch worktree of /repo HEAD under /tmp/seedchk_<id>; apply patch.diff
2. repository test suite must pass there; demo.py must exit 1 with the patch
3. run ./check <PROP> with VERIF_REPO=<worktree> (the checks rebuild from that tree) and record exit codes
4. revert the patch: demo.py must exit 0
5. remove the worktree; with --keep copy patch/demo/notes + meta.json into /verif/seeded/<id>/
"""
import json, os, shutil, subprocess, sys, time

args = [a for a in sys.argv[1:] if not a.startswith("--")]
if "--rev" in sys.argv:
    args.remove(sys.argv[sys.argv.index("--rev") + 1])
tier = "quick"
if "--tier" in sys.argv:
    tier = sys.argv[sys.argv.index("--tier") + 1]
    args.remove(tier)
keep = "--keep" in sys.argv
sid, src, props = args[0], args[1], args[2:]
wt = f"/tmp/seedchk_{sid}"
env = dict(os.environ, PYTHONHASHSEED="0")

def sh(cmd, **kw):
    return subprocess.run(cmd, shell=True, capture_output=True, text=True, **kw)

sh(f"git -C /repo worktree remove --force {wt}")
rev = "HEAD"
if "--rev" in sys.argv:
    rev = sys.argv[sys.argv.index("--rev") + 1]
assert sh(f"git -C /repo worktree add -q --detach {wt} {rev}").returncode == 0
res = {"seed": sid, "props": props, "tier": tier, "repo_head": sh(f"git -C /repo rev-parse --short {rev}").stdout.strip()}
try:
    ap = sh(f"git -C {wt} apply {src}/patch.diff")
    res["patch_applies"] = ap.returncode == 0
    if ap.returncode:
        print("PATCH DOES NOT APPLY", ap.stderr)
        sys.exit(2)
    t = sh(f"cd {wt} && PYTHONPATH={wt} timeout 900 /venv/bin/python -m pytest -q -p no:cacheprovider 2>&1 | tail -1")
    res["tests_with_patch"] = t.stdout.strip()
    d1 = sh(f"cd {wt} && REPO_UNDER_TEST={wt} PYTHONPATH={wt} /venv/bin/python {src}/demo.py")
    res["demo_with_patch_exit"] = d1.returncode
    res["demo_with_patch_out"] = (d1.stdout + d1.stderr)[-600:]
    res["checks"] = {}
    for p in props:
        t0 = time.time()
        c = sh(f"cd /verif && VERIF_REPO={wt} ./check {p} --tier {tier}", env=env)
        viol = [l for l in c.stdout.splitlines() if l.startswith("VIOLATION")]
        res["checks"][p] = {"exit": c.returncode, "violation_lines": len(viol), "wall_s": round(time.time() - t0, 1),
                            "first": (viol[0] if viol else ""), "detail": next((l.strip() for l in c.stdout.splitlines() if l.strip().startswith("clause=")), "")[:300],
                            "summary": c.stdout.strip().splitlines()[-1][:200] if c.stdout.strip() else c.stderr[-300:]}
    sh(f"git -C {wt} apply -R {src}/patch.diff")
    d0 = sh(f"cd {wt} && REPO_UNDER_TEST={wt} PYTHONPATH={wt} /venv/bin/python {src}/demo.py")
    res["demo_without_patch_exit"] = d0.returncode
finally:
    sh(f"git -C /repo worktree remove --force {wt}")
    # the checks rewrite evidence files; restore the committed ones
    sh("git -C /verif checkout -- evidence")
print(json.dumps(res, indent=1))
ok = res.get("tests_with_patch", "").find("passed") >= 0 and "failed" not in res.get("tests_with_patch", "") and res.get("demo_with_patch_exit") == 1 and res.get("demo_without_patch_exit") == 0
print("CONFIRMED (tests pass, demo fails with patch, passes without)" if ok else "NOT CONFIRMED")
print("DETECTED by: " + ", ".join(p for p, r in res["checks"].items() if r["exit"] == 1) or "nothing")
if keep and ok:
    dst = f"/verif/seeded/{sid}"
    os.makedirs(dst, exist_ok=True)
    for f in ("patch.diff", "demo.py", "NOTES.md"):
        if os.path.exists(os.path.join(src, f)):
            shutil.copy(os.path.join(src, f), dst)
    json.dump(res, open(os.path.join(dst, "eval.json"), "w"), indent=1)
