"""RefReport - what a task report must contain, from the observation (dates, ledger) and the spec."""
from mc.render import walk_resources, walk_tasks

TITLES = {"id": "Id", "name": "Name", "start": "Start", "end": "End", "priority": "Priority", "cost": "Cost"}


def effective_timeformat(report_fmt, project_fmt):
    return report_fmt or project_fmt or "%Y-%m-%d"


def rows(spec, obs, columns, leaf_only, timefmt, sc=0):
    """-> (header titles, [row cells]) for tasks in declaration order"""
    rate = {}
    for full, r, parent in walk_resources(spec.get("resources")):
        # a group's rate reaches the members that state none; a stated rate - also 'rate 0' - is the member's own
        own = r.get("rate")
        rate[full] = (own if own is not None else rate.get(parent, 0.0)) or 0.0
    names = {fid: t.get("name", t["id"]) for fid, t, _p in walk_tasks(spec.get("tasks"))}
    prio = {}

    def inh(tasks, cur):
        for t in tasks:
            p = t.get("prio", cur)
            yield t, p
            yield from inh(t.get("children") or [], p)

    out = []
    pr = {}
    stack = [(spec.get("tasks") or [], "", 500)]
    # priorities inherit from containers
    def walk(tasks, prefix, cur):
        for t in tasks:
            p = t.get("prio") if t.get("prio") is not None else cur
            pr[prefix + t["id"]] = p
            walk(t.get("children") or [], prefix + t["id"] + ".", p)
    walk(spec.get("tasks") or [], "", 500)
    cost = {}
    for r, slots in obs["ledger"].get(sc, {}).items():
        for s, lst in slots.items():
            for t, q in lst:
                cost[t] = cost.get(t, 0.0) + rate.get(r, 0.0) * q / 3600.0
    for t in obs["tasks"]:
        if leaf_only and not t["leaf"]:
            continue
        cells = []
        for c in columns:
            if c == "id":
                cells.append(t["id"])
            elif c == "name":
                cells.append(names[t["id"]])
            elif c in ("start", "end"):
                d = t[c][sc]
                cells.append(d.strftime(timefmt) if (t["sched"][sc] and d is not None) else "")
            elif c == "priority":
                cells.append(str(pr[t["id"]]))
            elif c == "cost":
                if not t["leaf"]:
                    cells.append(None)  # not judged for containers
                else:
                    v = cost.get(t["id"], 0.0)
                    cells.append(f"{v:.2f}" if v > 0 else "")
        out.append(cells)
    return [TITLES[c] for c in columns], out
