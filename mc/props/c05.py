"""C05 - daily and weekly limits are never exceeded (DESIGN 4, C05).

Mode A: limit value x resolution x placement (resource, resource group, task, container task,
resource-restricted task limit) x horizon (fits / overruns the declared end / 14 months / three year
ends incl. 53-week ISO years) x ASAP/ALAP x competing tasks. The final ledger is aggregated per calendar
day / ISO week by the checker (bookings are never enlarged afterwards, so the final ledger dominates every
intermediate one).
"""
from mc import oracles
from mc.props import common
from mc.run import Stats, explore

ASSUME = [
    "UTC projects, default calendar; calendar day / ISO week (date.isocalendar) on the project clock",
    "limit values dailymax {1h,1.5h,1.6h,2h,2.5h,3.5h,4h,90min,1d}, weeklymax {5h,7.5h,10h,10.6h,16h,450min,1d,0.5w} (fractions of a slot in both rounding directions; every unit: min, h, d = 8 h, w = 40 h), and a daily plus a weekly limit on the same entity {2h+5h, 1.5h+7.5h, 4h+10h, 1h+16h}; resolutions {60,30,15} min, and 50 min (which does not divide a day) for the horizons fits / overrun at four placements",
    "the whole scheduled horizon is aggregated, including the part beyond the declared project end that the scheduler adds",
    "limits count booked working time of every member of a limited group / every task below a limited task (person-time)",
]
DAILY = ["1h", "1.5h", "1.6h", "2h", "2.5h", "3.5h", "4h", "90min", "1d"]
WEEKLY = ["5h", "7.5h", "10h", "10.6h", "16h", "450min", "1d", "0.5w"]
BOTH = ["2h+5h", "1.5h+7.5h", "4h+10h", "1h+16h"]   # a daily AND a weekly limit on the same entity (either may be the binding one)
PLACES = ["res", "group", "grandgroup", "task", "container", "grandcontainer", "restrict", "restrict+general", "team", "groupteam", "midslot", "midslot-group", "teampre", "groupalt", "groupdirect", "emptymid", "emptymid-task", "mixdirs"]
HORIZONS = {
    # name: (start, dur, effort hours for a weekly 5h / daily 2h limit)
    "fits": ("2025-01-06", "3w"),
    "overrun": ("2025-01-06", "1w"),
    "ye2024": ("2024-12-23", "4w"),
    "ye2026": ("2026-12-21", "4w"),
    "ye2020": ("2020-12-21", "4w"),
    "long": ("2025-01-06", "14m"),
}


def universe(tier):
    Ls = (60, 30, 15) if tier == "thorough" else (60, 30)
    for hz in HORIZONS:
        for kind, vals in (("dailymax", DAILY), ("weeklymax", WEEKLY), ("both", BOTH)):
            for val in vals:
                for place in PLACES:
                    for L in Ls + ((50,) if (hz in ("fits", "overrun") and place in ("res", "task", "group", "container")) else ()):   # 50 min does not divide a day
                        if hz == "long" and (L != 60 or kind != "weeklymax" or val != "5h" or place not in ("res", "task")):
                            continue
                        if tier == "quick" and hz in ("ye2026", "ye2020") and (L != 60 or place not in ("res", "task", "group")):
                            continue
                        for alap in (False, True):
                            if hz == "long" and alap:
                                continue
                            for comp in (0, 1):
                                yield {"hz": hz, "kind": kind, "val": val, "place": place, "L": L, "alap": alap, "comp": comp}
                                if hz == "fits" and L == 60:
                                    # the same project with the task tree written BEFORE the resources (limit entries name resources not yet declared)
                                    yield {"hz": hz, "kind": kind, "val": val, "place": place, "L": L, "alap": alap, "comp": comp, "tf": True}


def _hours(val):
    # every unit of the language: minutes, hours, working days (8 h) and working weeks (40 h)
    from mc.oracles import _limit_seconds
    return _limit_seconds(val) / 3600.0


def to_spec(it):
    start, dur = HORIZONS[it["hz"]]
    L = it["L"]
    kind, val = it["kind"], it["val"]
    if kind == "both":
        dval, wval = val.split("+")
        per_week = min(_hours(dval) * 5, _hours(wval))
    else:
        per_week = _hours(val) * (5 if kind == "dailymax" else 1)
    if it["hz"] == "fits":
        eff_h = min(per_week * 1.5, 30)
    elif it["hz"] == "overrun":
        eff_h = per_week * 3
    elif it["hz"] == "long":
        eff_h = per_week * 56
    else:
        eff_h = per_week * 3.3
    eff_min = int(eff_h * 60)
    spec = {"start": start, "dur": dur, "res_min": L if L != 60 else None, "alap": it["alap"]}
    lim = {kind: val} if kind != "both" else {"dailymax": dval, "weeklymax": wval}
    r1, r2 = {"id": "r1"}, {"id": "r2"}
    x = {"id": "x", "effort": eff_min, "alloc": ["r1"]}
    tasks = [x]
    resources = [r1, r2]
    place = it["place"]
    if place == "res":
        r1["limits"] = lim
    elif place == "group":
        resources = [{"id": "grp", "limits": lim, "children": [r1, r2]}]
        x["effort"] = eff_min // 2
        tasks.append({"id": "y", "effort": eff_min // 2, "alloc": ["r2"]})
    elif place in ("groupalt", "groupdirect"):
        # the limited group is the parent of the booked members AND is named in an allocation itself (as an alternative of one of
        # its own members / as the allocation of a task placed between two tasks of its members)
        resources = [{"id": "grp", "limits": lim, "children": [r1, r2]}]
        x["effort"] = eff_min // 2
        x["prio"] = 800
        if place == "groupalt":
            tasks.append({"id": "y", "effort": eff_min // 2, "alloc": ["r2"], "alt": ["grp"]})
        else:
            tasks += [{"id": "viagroup", "effort": 60, "alloc": ["grp"], "prio": 600}, {"id": "y", "effort": eff_min // 2, "alloc": ["r2"]}]
    elif place == "mixdirs":
        # the limited resource is booked by a FORWARD and a BACKWARD task (task-level alap with an end) whose work meets in the same
        # days / weeks; whole-slot efforts
        r1["limits"] = lim
        x["effort"] = max(L, (eff_min // 2) // L * L)
        from datetime import datetime, timedelta
        end = (datetime.strptime(start, "%Y-%m-%d") + timedelta(days=4)).strftime("%Y-%m-%d") + "-17:00"
        tasks.append({"id": "late", "effort": max(L, (eff_min // 2) // L * L), "alloc": ["r1"], "sched": "alap", "end": end, "prio": 400})
    elif place == "emptymid":
        # the limit sits on the department; the team in between states an EMPTY limits block of its own
        resources = [{"id": "dept", "limits": lim, "children": [{"id": "team", "limits_empty": True, "children": [r1, r2]}]}]
        x["effort"] = eff_min // 2
        tasks.append({"id": "y", "effort": eff_min // 2, "alloc": ["r2"]})
    elif place == "emptymid-task":
        x["effort"] = eff_min // 2
        tasks = [{"id": "top", "limits": lim, "children": [{"id": "box", "limits_empty": True, "children": [x, {"id": "y", "effort": eff_min // 2, "alloc": ["r2"]}]}]}]
    elif place == "grandgroup":
        # the limit sits two levels above the booked leaves
        resources = [{"id": "dept", "limits": lim, "children": [{"id": "grp", "children": [r1]}, {"id": "grp2", "children": [r2]}]}]
        x["effort"] = eff_min // 2
        tasks.append({"id": "y", "effort": eff_min // 2, "alloc": ["r2"]})
    elif place == "grandcontainer":
        x["effort"] = eff_min // 2
        tasks = [{"id": "top", "limits": lim, "children": [{"id": "box", "children": [x]}, {"id": "box2", "children": [{"id": "y", "effort": eff_min // 2, "alloc": ["r2"]}]}]}]
    elif place == "task":
        x["limits"] = lim
    elif place == "container":
        x["effort"] = eff_min // 2
        tasks = [{"id": "box", "limits": lim, "children": [x, {"id": "y", "effort": eff_min // 2, "alloc": ["r2"]}]}]
    elif place == "restrict":
        x["limits"] = {k: (v, ["r1"]) for k, v in lim.items()}
    elif place == "restrict+general":
        # ONE limits block with a general entry and a tighter entry of the same kind restricted to r1, on a container over two tasks
        x["effort"] = eff_min // 2
        pairs = []
        for k, v in lim.items():
            loose = f"{_hours(v) * 2}h"
            pairs += [(k, loose), (k, (v, ["r1"]))]
        tasks = [{"id": "box", "limits": pairs, "children": [x, {"id": "y", "effort": eff_min // 2, "alloc": ["r2"]}]}]
    elif place == "team":
        x["alloc"] = ["r1", "r2"]
        x["effort"] = eff_min // 2
        x["limits"] = lim
    elif place == "groupteam":
        resources = [{"id": "grp", "limits": lim, "children": [r1, r2]}]
        x["alloc"] = ["r1", "r2"]
        x["effort"] = eff_min // 2
    elif place in ("midslot", "midslot-group"):
        # x is limited (own resource or its group) and enters its first slot behind a sub-slot predecessor that worked elsewhere
        r0 = {"id": "r0"}
        if place == "midslot":
            r1["limits"] = lim
            resources = [r0, r1, r2]
        else:
            resources = [r0, {"id": "grp", "limits": lim, "children": [r1, r2]}]
        x["deps"] = ["pre"]
        tasks = [{"id": "pre", "effort": 30 if L >= 60 else 10, "alloc": ["r0"]}, x]
    elif place == "teampre":
        r1["limits"] = lim
        x["alloc"] = ["r1", "r2"]
        x["effort"] = eff_min // 2
        tasks = [{"id": "pre", "effort": 20 if L >= 60 else 5, "alloc": ["r2"], "prio": 900}, x]
    if it["comp"]:
        tasks.append({"id": "z", "effort": 150, "alloc": ["r1"], "prio": 300})
    spec["resources"] = resources
    spec["tasks"] = tasks
    if it.get("tf"):
        spec["tasks_first"] = True
    return spec


def evaluate(item):
    if isinstance(item, dict) and item.get("kind") == "wide":
        from mc.props import wide
        return wide.eval_c05(item)
    spec = to_spec(item)
    obs = common.run_spec(spec)
    if obs.get("error"):
        return common.errored(item, obs)
    r = common.base_result(item, obs)
    v, binding = oracles.c05_limits(spec, obs, 0)
    r["v"] = common.dedup(v)
    r["nt"] = binding > 0
    r["x"] = {"periods_where_limit_was_reached": binding, "runs_with_extended_horizon": 1 if common.extended(obs, spec) else 0}
    return r


# ---- mode B: operation histories on the bare Limits object -------------------------------------------

def b_configs(tier):
    for start, dur_days in (("2025-01-06", 14), ("2024-12-23", 21), ("2026-12-21", 21), ("2025-01-08-13:00", 10)):
        for kind, val in (("dailymax", 2.0), ("dailymax", 1.5), ("weeklymax", 3.0), ("weeklymax", 2.5)):
            for L in (60, 30):
                yield {"start": start, "days": dur_days, "kind": kind, "val": val, "L": L, "depth": 3 if tier == "quick" else 4}


def b_slots(cfg):
    """distinguished slot indices: first/last slot of a day, of an ISO week, of the year, of the declared interval, beyond it"""
    from datetime import timedelta
    from mc.ref.calendar import parse_date

    st = parse_date(cfg["start"])
    L = cfg["L"] * 60
    per_day = 86400 // L
    n = cfg["days"] * per_day
    idx = lambda t: int((t - st).total_seconds() // L)  # noqa: E731
    day1 = (st + timedelta(days=1)).replace(hour=0, minute=0)
    mon = st + timedelta(days=(7 - st.weekday()) % 7 or 7)
    mon = mon.replace(hour=0, minute=0)
    picks = {0, 1, idx(day1) - 1, idx(day1), idx(mon) - 1, idx(mon), idx(mon) + per_day, n - 1, n, n + 1, n + per_day, n + 7 * per_day}
    ny = st.replace(year=st.year + 1, month=1, day=1, hour=0, minute=0)
    if 0 < idx(ny) < n + 8 * per_day:
        picks |= {idx(ny) - 1, idx(ny)}
    return sorted(p for p in picks if p >= 0)


def evaluate_b(cfg):
    """exhaustive DFS over histories of book attempts at the distinguished slots on the real Limits object"""
    from datetime import timedelta
    from mc import grids, render
    from mc.ref.calendar import parse_date
    from scriptplan.core.limits import Limits

    st = parse_date(cfg["start"])
    L = cfg["L"] * 60
    proj = grids._fresh_project(st, st + timedelta(days=cfg["days"]), L)
    base = Limits()
    base.setProject(proj)
    base.setLimit(cfg["kind"], cfg["val"])
    cap = int(cfg["val"] * 3600 // L)
    slots = b_slots(cfg)

    def period(i):
        t = st + timedelta(seconds=i * L)
        return t.date() if cfg["kind"] == "dailymax" else t.isocalendar()[:2]

    viol, states, trans = [], set(), 0

    def dfs(lim, counts, hist, depth):
        nonlocal trans
        states.add(tuple(sorted(counts.items())))
        if depth == 0:
            return
        for i in slots:
            trans += 1
            ok = lim.ok(i)
            have = counts.get(period(i), 0)
            if ok and have >= cap and len(viol) < 3:
                viol.append((cfg["kind"], f"Limits.ok({i}) is True after history {hist} although {have} slots (cap {cap} = {cfg['val']}h at "
                                          f"{cfg['L']}min) are already counted in period {period(i)} (slot time {st + timedelta(seconds=i * L)})"))
            if ok:
                l2 = lim.copy()
                # copy() resets counters: replay the history on the copy
                for j in hist + [i]:
                    l2.inc(j)
                c2 = dict(counts)
                c2[period(i)] = have + 1
                dfs(l2, c2, hist + [i], depth - 1)

    dfs(base.copy(), {}, [], cfg["depth"])
    return {"k": render.key(cfg), "v": viol, "nt": True, "s": [hash((cfg["start"], cfg["kind"], s)) for s in list(states)[:2000]], "tr": trans}


def payload(item, clause, detail):
    from mc import render
    spec = to_spec(item)
    return {"item": item, "detail": detail, "spec": spec, "tjp": render.render(spec)}


def sample(item):
    from mc import render
    return {"item": item, "tjp": render.render(to_spec(item))}


def trait(item, clause, detail, fid):
    if fid == "D27":
        return item["place"] == "team"
    return False


def run(ctx):
    st = Stats()
    explore(ctx, universe(ctx.tier), "mc.props.c05:evaluate", st, payload=payload, sample_of=sample, trait=trait, timeout=300)
    na = st.evaluations
    explore(ctx, b_configs(ctx.tier), "mc.props.c05:evaluate_b", st, payload=lambda it, c, d: {"item": it, "detail": d, "mode": "B"},
            sample_of=lambda it: {"mode B config": it, "distinguished slots": b_slots(it)}, timeout=600)
    from mc.props import wide
    wide.sweep(ctx, st, "C05")
    common.vacuity_guard(ctx, st)
    cov = st.coverage(
        "product universe: 6 horizons (fits, overruns the declared end, 14 months, year ends 2024/2026/2020) x 12 limit values x 12 placements "
        "x resolutions x ASAP/ALAP x competing task; states = distinct schedule observations; transitions = placements + bookings; "
        "non-trivial = the limit was reached in at least one day/week (it was binding). Mode B: for 32 configurations of the bare Limits "
        "object every history (depth <= 3, thorough 4) of booking attempts at the distinguished slots (first/last slot of a day, an ISO week, "
        "the year, the declared interval, and slots beyond it) - ok() must never allow a booking in a period that already holds the cap",
        mode_a_projects=na, mode_b_configs=st.evaluations - na)
    return ctx.finish(cov, ASSUME + [wide.NOTE])


def replay(path):
    import json
    p = json.load(open(path))
    if p.get("mode") == "B":
        return common.generic_replay(path, evaluate_b)
    return common.generic_replay(path, evaluate)
