"""Function-level grids shared by C13 (implementations agree) and C17 (algebra laws).

Every function here runs inside a worker whose extension mode was fixed by the pool. It evaluates one
*configuration* on its complete argument grid, returns a digest of all returned values / exception
types (C13 compares digests across modes) and the list of law violations (C17).
"""
import hashlib
import itertools
from datetime import datetime, timedelta

BASE = datetime(2025, 1, 6)  # a Monday

INTERVAL_SETS = [
    [("mon - fri", ["9:00 - 17:00"])],
    [("mon - fri", ["8:15 - 11:45", "13:15 - 16:30"])],
    [("mon, wed, fri", ["9:00 - 12:00", "13:00 - 18:00"])],
    [("mon - sun", ["0:00 - 24:00"])],
    [("mon - fri", ["22:00 - 6:00"])],
    [("mon, wed", ["22:00 - 2:00"])],
    [("sun", ["18:00 - 2:00"])],
    [("fri - mon", ["23:30 - 0:30"])],
    [("sat, sun", ["10:00 - 14:00"])],
    [("tue", ["0:00 - 0:01"])],
    [("mon - fri", ["9:00 - 12:00", "12:00 - 17:00"])],  # adjacent
    [("mon", ["9:00 - 17:00"]), ("tue", ["10:00 - 18:00"])],
    [("mon - thu", ["8:00 - 12:00"]), ("fri", ["8:00 - 11:00"])],
    [("mon - fri", ["9:00 - 17:00", "20:00 - 2:00"])],  # day + night shift
    [("sun", ["23:59 - 0:01"])],
    [("mon - sun", ["12:00 - 12:00"])],  # start == end: the code's reading is 'crosses midnight'
    [("wed", ["6:00 - 14:00", "14:00 - 22:00", "22:00 - 6:00"])],
    [("mon - fri", ["9:00 - 17:00"]), ("mon", ["18:00 - 20:00"])],  # same day extended twice
    [("thu", ["23:00 - 24:00"])],
    [("mon - fri", ["7:30 - 15:30"])],
]
# derive more sets mechanically: shift every boundary by +7 and +23 minutes, and day rotations
def _shift_time(t, d):
    h, m = t.strip().split(":")
    tot = (int(h) * 60 + int(m) + d)
    if tot > 1440:
        tot -= 1440
    return f"{tot // 60}:{tot % 60:02d}"


def _derived():
    out = []
    for hs in INTERVAL_SETS[:10]:
        for d in (7, 23):
            new = []
            for days, rs in hs:
                new.append((days, [f"{_shift_time(r.split('-')[0], d)} - {_shift_time(r.split('-')[1], d)}" for r in rs]))
            out.append(new)
    return out


# ranges written out of order within a day, a later statement adding an EARLIER range to some of the days, descending triples
UNSORTED_SETS = [
    [("mon - fri", ["13:00 - 17:00", "9:00 - 12:00"])],
    [("mon - fri", ["14:00 - 18:00"]), ("mon, wed", ["8:00 - 12:00"])],
    [("tue - sat", ["20:00 - 22:00", "12:00 - 14:00", "6:00 - 8:00"])],
    [("mon - sun", ["22:00 - 6:00", "9:00 - 12:00"])],
    [("mon - fri", ["9:00 - 17:00"]), ("sun", ["22:00 - 6:00"]), ("mon", ["7:00 - 8:00"])],
]
ALL_INTERVAL_SETS = INTERVAL_SETS + _derived() + UNSORTED_SETS  # 45 sets


def _h():
    return hashlib.sha1()


def _fresh_project(start, end, gran):
    from scriptplan.core.project import Project

    p = Project("g", "G", "")
    p["start"] = start
    p["end"] = end
    p["timingresolution"] = gran
    return p


def _parse_days(days):
    order = ["mon", "tue", "wed", "thu", "fri", "sat", "sun"]
    out = []
    for part in days.split(","):
        part = part.strip()
        if "-" in part:
            a, b = [x.strip() for x in part.split("-")]
            i, j = order.index(a), order.index(b)
            out += order[i:j + 1] if i <= j else order[i:] + order[:j + 1]
        else:
            out.append(part)
    return out


def _parse_ranges(rs):
    return [tuple(x.strip() for x in r.split("-")) for r in rs]


def wh_grid(cfg):
    """cfg = index into ALL_INTERVAL_SETS. Every minute of one week: WorkingHours.onShift; daily hours."""
    from scriptplan.core.working_hours import WorkingHours

    hs = ALL_INTERVAL_SETS[cfg]
    p = _fresh_project(BASE, BASE + timedelta(days=7), 60)
    wh = WorkingHours(p)
    for days, rs in hs:
        wh.set_hours(_parse_days(days), _parse_ranges(rs))
    h = _h()
    bits = bytearray()
    for i in range(7 * 1440):
        bits.append(1 if wh.onShift(i) else 0)
    h.update(bytes(bits))
    daily = [round(float(wh.get_daily_hours(d)), 6) for d in range(7)]
    h.update(repr(daily).encode())
    return {"cfg": cfg, "digest": h.hexdigest(), "calls": 7 * 1440 + 7, "bits": bytes(bits), "daily": daily}


SB_CONFIGS = None


def sb_configs(tier):
    # includes slot lengths that do not divide a day (7, 11, 13, 25, 35, 50, 55 min): whole-day arithmetic shortcuts break there
    Ls = [0.5, 1, 2.5, 5, 7, 7.5, 10, 11, 13, 15, 20, 25, 30, 35, 50, 55, 60] if tier == "thorough" else [5, 7, 7.5, 15, 25, 50, 60]
    offs = [(0, 0), (8, 13)]
    spans = [180, 1440 + 37, 2 * 1440, 3 * 1440 + 11] if tier == "thorough" else [180, 1440 + 37]
    cfgs = [(L, off, span) for L in Ls for off in offs for span in spans]
    # the process environment must not matter: the same laws with TZ set to zones whose daylight-saving switch lies inside the
    # window (4th element = (TZ value, window start))
    for L in ((60, 15) if tier == "quick" else (60, 30, 15, 7)):
        cfgs.append((L, (0, 0), 2 * 1440, ("Europe/Berlin", "2025-03-29")))
        cfgs.append((L, (8, 13), 2 * 1440, ("America/New_York", "2025-11-01")))
    return cfgs


def _call(h, f, *a, **kw):
    try:
        v = f(*a, **kw)
        h.update(repr(v).encode())
        return ("ok", v)
    except BaseException as e:  # noqa
        if type(e).__name__ == "ItemTimeout":
            raise
        h.update(("EXC:" + type(e).__name__).encode())
        return ("exc", type(e).__name__)


def sb_grid(cfg):
    """Scoreboard + Project index<->date conversions on a complete grid; laws of C17."""
    from scriptplan.scheduler.scoreboard import Scoreboard

    if len(cfg) == 4:
        # evaluate under another process time zone (restored afterwards; the worker is single-threaded)
        import os
        import time as _time
        tzname, day = cfg[3]
        old_tz = os.environ.get("TZ")
        os.environ["TZ"] = tzname
        _time.tzset()
        try:
            r = _sb_grid(cfg[:3], datetime.strptime(day, "%Y-%m-%d"))
        finally:
            if old_tz is None:
                os.environ.pop("TZ", None)
            else:
                os.environ["TZ"] = old_tz
            _time.tzset()
        r["cfg"] = cfg
        return r
    return _sb_grid(cfg, BASE)


def _sb_grid(cfg, base):
    from scriptplan.scheduler.scoreboard import Scoreboard
    import math

    L, (oh, om), span = cfg
    gran = int(round(L * 60))   # L may be a fraction of a minute (7.5 min = 450 s)
    start = base + timedelta(hours=oh, minutes=om)
    end = start + timedelta(minutes=span)
    sb = Scoreboard(start, end, gran, 2)
    proj = _fresh_project(start, end, gran)
    h = _h()
    viol = []
    calls = 0
    import math

    exp_size = math.ceil(span * 60 / gran) + 1
    if sb.size != exp_size:
        viol.append(("size", f"Scoreboard.size={sb.size} expected ceil(({span}min)/{L}min)+1={exp_size}"))
    size = sb.size
    # idxToDate over -3 .. size+3, both clamp modes
    dates = {}
    for i in range(-3, size + 4):
        for force in (False, True):
            r = _call(h, sb.idxToDate, i, force)
            calls += 1
            inside = 0 <= i < size
            if inside:
                exp = start + timedelta(seconds=i * gran)
                if r != ("ok", exp):
                    viol.append(("idx2date", f"idxToDate({i},{force})={r} expected {exp}"))
                dates[i] = exp
            elif not force:
                if r[0] != "exc":
                    viol.append(("reject", f"idxToDate({i}, force=False) returned {r[1]} for size {size}"))
            else:
                exp = start if i < 0 else end
                if r != ("ok", exp):
                    viol.append(("clamp", f"idxToDate({i}, force=True)={r} expected {exp}"))
        rp = _call(h, proj.idxToDate, i)
        calls += 1
        if rp != ("ok", start + timedelta(seconds=i * gran)):
            viol.append(("proj-idx2date", f"Project.idxToDate({i})={rp}"))
    if size >= 1 and start + timedelta(seconds=(size - 1) * gran) < end:
        viol.append(("cover", f"last slot starts {start + timedelta(seconds=(size - 1) * gran)} before end {end}"))
    # strictly increasing + round trip
    prev = None
    for i in range(size):
        d = dates.get(i)
        if prev is not None and not (d > prev):
            viol.append(("monotone", f"idxToDate({i})={d} <= idxToDate({i - 1})={prev}"))
        prev = d
        for force in (True, False):
            r = _call(h, sb.dateToIdx, d, force)
            calls += 1
            if r != ("ok", i):
                viol.append(("roundtrip", f"dateToIdx(idxToDate({i}),{force})={r}"))
        rp = _call(h, proj.dateToIdx, d)
        calls += 1
        if rp != ("ok", i):
            viol.append(("proj-roundtrip", f"Project.dateToIdx(idxToDate({i}))={rp}"))
    # every minute of the window, +-1s, floor-inverse; outside the table: reject / clamp
    last_start = start + timedelta(seconds=(size - 1) * gran)
    t = start - timedelta(minutes=3)
    stop = last_start + timedelta(seconds=gran) + timedelta(minutes=3)
    one = timedelta(seconds=1)
    while t <= stop:
        for tt in (t - one, t, t + one, t - timedelta(seconds=0.12), t + timedelta(seconds=0.5), t + timedelta(microseconds=1)):
            secs = (tt - start).total_seconds()   # instants with a sub-second part too (gaps such as 0.3333 h produce them)
            exp = math.floor(secs / gran)
            for force in (True, False):
                r = _call(h, sb.dateToIdx, tt, force)
                calls += 1
                if 0 <= exp < size:
                    if r != ("ok", exp):
                        viol.append(("floor", f"dateToIdx({tt},{force})={r} expected {exp} (L={L}min)"))
                elif force:
                    want = 0 if exp < 0 else size - 1
                    if r != ("ok", want):
                        viol.append(("clamp", f"dateToIdx({tt}, force=True)={r} expected {want}"))
                else:
                    # C-style truncation maps (-gran, 0) to index 0, an index *inside* the table: the
                    # statement only demands rejection of indices outside it, so that zone is tolerated
                    if r[0] != "exc" and not (-gran < secs < 0 and r == ("ok", 0)):
                        viol.append(("reject", f"dateToIdx({tt}, force=False)={r[1]} but instant is outside "
                                               f"[{start}, {last_start}+{L}min)"))
            rp = _call(h, proj.dateToIdx, tt)
            calls += 1
            if secs >= 0 and rp != ("ok", exp):
                viol.append(("proj-floor", f"Project.dateToIdx({tt})={rp} expected {exp}"))
        t += timedelta(minutes=1)
    # Project.scoreboardSize after initScoreboards equals the table size and covers the end
    proj.initScoreboards()
    ps = proj.scoreboardSize()
    h.update(repr(ps).encode())
    if ps != size:
        viol.append(("proj-size", f"Project.scoreboardSize()={ps} Scoreboard.size={size}"))
    # keep at most a few examples per clause
    seen, short = {}, []
    for c, d in viol:
        seen[c] = seen.get(c, 0) + 1
        if seen[c] <= 2:
            short.append((c, d))
    return {"cfg": cfg, "digest": h.hexdigest(), "calls": calls, "viol": short, "viol_counts": seen}


def rt_grid(cfg):
    """cfg = (first, last) resolution in minutes: for EVERY whole-minute resolution in the range, every slot start of a 3-day window
    (and the instants one second before / after it): index(time(i)) = i, floor-inverse one second around; Scoreboard and Project."""
    from scriptplan.scheduler.scoreboard import Scoreboard

    h = _h()
    viol, calls = [], 0
    one = timedelta(seconds=1)
    for L in range(cfg[0], cfg[1] + 1):
        gran = L * 60
        start = BASE + timedelta(hours=8, minutes=13)
        end = start + timedelta(days=3)
        sb = Scoreboard(start, end, gran, 2)
        proj = _fresh_project(start, end, gran)
        for i in range(sb.size - 1):
            t = start + timedelta(seconds=i * gran)
            for name, obj in (("Scoreboard", sb), ("Project", proj)):
                for tt, exp in ((t, i), (t + one, i), (t - one, i - 1)):
                    if exp < 0:
                        continue
                    r = _call(h, obj.dateToIdx, tt)
                    calls += 1
                    if r != ("ok", exp):
                        viol.append(("slot-start-index", f"{name}.dateToIdx({tt})={r} expected {exp} at resolution {L} min (slot {i} starts {t})"))
    seen, short = {}, []
    for c, d in viol:
        seen[c] = seen.get(c, 0) + 1
        if seen[c] <= 2:
            short.append((c, d))
    return {"cfg": cfg, "digest": h.hexdigest(), "calls": calls, "viol": short, "viol_counts": seen}


def far_grid(cfg):
    """cfg = L minutes: a window of 90 years; index <-> date laws at ~2000 indices spread over it (and around 2^31 seconds,
    where 32-bit arithmetic wraps): the window extension of a project with a very large effort reaches such indices."""
    from scriptplan.scheduler.scoreboard import Scoreboard

    L = cfg
    gran = int(L * 60)
    start = BASE
    end = BASE + timedelta(days=90 * 365)
    sb = Scoreboard(start, end, gran, 2)
    proj = _fresh_project(start, end, gran)
    h = _h()
    viol, calls = [], 0
    size = sb.size
    wrap = (2 ** 31) // gran
    idxs = sorted({i for i in list(range(0, size, max(1, size // 2000))) + list(range(wrap - 3, wrap + 4)) + [size - 2, size - 1] if 0 <= i < size})
    for i in idxs:
        exp = start + timedelta(seconds=i * gran)
        for name, obj in (("Scoreboard", sb), ("Project", proj)):
            r = _call(h, obj.idxToDate, i)
            calls += 1
            if r != ("ok", exp):
                viol.append(("far-idx2date", f"{name}.idxToDate({i})={r} expected {exp} (L={L}min, {i * gran} s after the start)"))
            r = _call(h, obj.dateToIdx, exp)
            calls += 1
            if r != ("ok", i):
                viol.append(("far-roundtrip", f"{name}.dateToIdx({exp})={r} expected {i}"))
    seen, short = {}, []
    for c, d in viol:
        seen[c] = seen.get(c, 0) + 1
        if seen[c] <= 2:
            short.append((c, d))
    return {"cfg": cfg, "digest": h.hexdigest(), "calls": calls, "viol": short, "viol_counts": seen}


def ref_scan(bits, s, e, m):
    """Maximal runs of true slots over the table *without its final sentinel slot*, kept if >= m long,
    clipped to [s, e), dropped if empty. bits covers indices 0..len-1 (sentinel excluded)."""
    out = []
    n = len(bits)
    i = 0
    while i < n:
        if bits[i]:
            j = i
            while j < n and bits[j]:
                j += 1
            if j - i >= m:
                a, b = max(i, s), min(j, e)
                if a < b:
                    out.append((a, b))
            i = j
        else:
            i += 1
    return out


def ci_grid(cfg):
    """cfg = (n, L): every 0/1 pattern of length n x every window [s,e] x minimum {1,2,3} slots."""
    from scriptplan.scheduler.scoreboard import Scoreboard
    from scriptplan.utils.time import TimeInterval

    n, L = cfg
    gran = L * 60
    start = BASE
    end = start + timedelta(seconds=n * gran)  # size = n + 1 (sentinel at index n)
    h = _h()
    viol, counts, calls = [], {}, 0
    sb = Scoreboard(start, end, gran, 2)
    pred = lambda v: v is None  # noqa: E731
    for pat in itertools.product((0, 1), repeat=n):
        for i, b in enumerate(pat):
            sb[i] = None if b else 2
        sb[n] = 2
        for s in range(0, n + 1):
            for e in range(s, n + 1):
                iv = TimeInterval(start + timedelta(seconds=s * gran), start + timedelta(seconds=e * gran))
                for m in (1, 2, 3):
                    calls += 1
                    try:
                        got = sb.collectIntervals(iv, m * gran, pred)
                        got = [(int((g.start - start).total_seconds() // gran), int((g.end - start).total_seconds() // gran))
                               for g in got]
                        h.update(repr(got).encode())
                    except BaseException as ex:  # noqa
                        if type(ex).__name__ == "ItemTimeout":
                            raise
                        got = ("EXC", type(ex).__name__)
                        h.update(repr(got).encode())
                    exp = ref_scan(pat, s, e, m)
                    if got != exp:
                        if isinstance(got, tuple):
                            c = "scan-exception"
                        elif any(a >= b for a, b in got):
                            c = "scan-empty-interval"
                        elif got and exp and got[0][0] == exp[0][0] + 1 and exp[0][0] == 0:
                            c = "scan-lost-slot0"
                        else:
                            c = "scan-mismatch"
                        counts[c] = counts.get(c, 0) + 1
                        if counts[c] <= 2:
                            viol.append((c, f"pattern={''.join(map(str, pat))} window=[{s},{e}) min={m}: got {got} expected {exp}"))
    return {"cfg": cfg, "digest": h.hexdigest(), "calls": calls, "viol": viol, "viol_counts": counts}
