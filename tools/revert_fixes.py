#!/usr/bin/env python3
"""For every `fixed:` line of known_findings.txt: revert that commit on a scratch worktree of /repo HEAD and
run the quick check of the property it belongs to - the check must report the defect again (exit 1)."""
import json, os, re, subprocess, sys

def sh(cmd, env=None, timeout=3600):
    return subprocess.run(cmd, shell=True, capture_output=True, text=True, env=env, timeout=timeout)

out = []
for line in open("/verif/known_findings.txt"):
    m = re.match(r"fixed: property=(C\d+) ([0-9a-f]{7,}) (.*)", line)
    if not m:
        continue
    prop, commit, what = m.groups()
    wt = f"/tmp/revchk_{commit}"
    sh(f"git -C /repo worktree remove --force {wt}")
    sh(f"git -C /repo worktree add -q --detach {wt} HEAD")
    r = sh(f"cd {wt} && git revert --no-commit {commit}")
    rec = {"property": prop, "commit": commit, "what": what[:90]}
    if r.returncode != 0:
        rec["result"] = "revert-conflict"
    else:
        env = dict(os.environ, VERIF_REPO=wt, PYTHONHASHSEED="0")
        c = sh(f"cd /verif && ./check {prop} --tier quick", env=env)
        rec["result"] = "re-detected" if (c.returncode == 1 and "VIOLATION" in c.stdout) else f"NOT-detected(exit {c.returncode})"
        rec["detail"] = next((l.strip() for l in c.stdout.splitlines() if l.strip().startswith("clause=")), "")[:160]
    sh(f"git -C /repo worktree remove --force {wt}")
    print(json.dumps(rec), flush=True)
    out.append(rec)
sh("git -C /verif checkout -- evidence")
json.dump(out, open("/verif/seeded/revert_fixes_result.json", "w"), indent=1)
print(sum(1 for r in out if r["result"] == "re-detected"), "re-detected of", len(out))
