from datetime import datetime

from mc.ref.deps import RefDeps, gap_seconds
from mc.ref.sched import ref_schedule

T = lambda i, m, r="r1", **kw: {"id": i, "effort": m, "alloc": [r], **kw}  # noqa: E731


def test_gap_units_are_calendar_time():
    assert gap_seconds("30min") == 1800 and gap_seconds("2h") == 7200 and gap_seconds("1d") == 86400 and gap_seconds("1w") == 7 * 86400


def test_reference_resolution():
    spec = {"tasks": [{"id": "g", "children": [T("a", 60), {"id": "h", "children": [T("a", 60, deps=["!!a", "!a", "c", "g.h.a"]), T("b", 60)]}]}, T("c", 60, deps=["g.h"]), T("a", 60, prec=["c"])]}
    d = RefDeps(spec)
    assert d.resolve("g.h.a", "!!a") == "g.a"      # two levels up: children of g
    assert d.resolve("g.h.a", "!b") == "g.h.b"      # sibling
    assert d.resolve("g.h.a", "c") == "c" and d.resolve("g.h.a", "a") == "a"   # root lookup: top-level tasks only
    assert d.resolve("c", "!a") == "a"              # '!' from a top-level task stays at the root
    assert d.resolve("g.h.a", "nosuch") is None
    assert ("a", "end", 0) in d.own["c"]            # precedes inverted
    assert not d.acyclic()                          # g.h.a depends on itself via 'g.h.a' and '!a'


def test_inherited_edges_and_leaf_graph():
    spec = {"tasks": [T("x", 60), {"id": "g", "deps": [{"ref": "x", "gap": "1h"}], "children": [T("a", 60), T("b", 60, deps=["!a"])]}]}
    d = RefDeps(spec)
    assert ("x", "end", 3600.0) in d.edges("g.a") and ("x", "end", 3600.0) in d.edges("g.b")
    assert d.leaf_graph()["g.b"] == {"x", "g.a"} and d.acyclic()


def test_refsched_priority_then_declaration_order():
    spec = {"resources": [{"id": "r1"}], "tasks": [T("a", 60, prio=500), T("b", 120, prio=700), T("c", 60, prio=500)]}
    r = ref_schedule(spec)
    assert r["b"][1] == datetime(2025, 1, 6, 9) and r["a"][1] == datetime(2025, 1, 6, 11) and r["c"][1] == datetime(2025, 1, 6, 12)


def test_refsched_gap_leave_limit_team():
    spec = {"resources": [{"id": "r1", "limits": {"dailymax": "2h"}, "leaves": [{"k": "booking", "a": "2025-01-06-11:00", "b": "+6h"}]}, {"id": "r2"}],
            "tasks": [T("a", 180), T("b", 60, "r2", deps=[{"ref": "a", "gap": "2h"}]), {"id": "t", "effort": 60, "alloc": ["r1", "r2"], "prio": 300}]}
    r = ref_schedule(spec)
    # a: 2 h on Monday (09-11, then the booking), the third hour on Tuesday 09:00 (daily limit 2 h allows it)
    assert r["a"] == (True, datetime(2025, 1, 6, 9), datetime(2025, 1, 7, 10))
    assert r["b"] == (True, datetime(2025, 1, 7, 12), datetime(2025, 1, 7, 13))
    # the team needs r1, whose Tuesday limit has 1 h left after a's third hour
    assert r["t"] == (True, datetime(2025, 1, 7, 10), datetime(2025, 1, 7, 11))


def test_refreport_rows():
    from mc.ref.report import rows
    spec = {"resources": [{"id": "r1", "rate": 50.0}], "tasks": [{"id": "g", "prio": 300, "children": [T("a", 90, name="Alpha")]}]}
    obs = {"tasks": [{"id": "g", "leaf": False, "sched": [True], "start": [datetime(2025, 1, 6, 9)], "end": [datetime(2025, 1, 6, 10, 30)]},
                     {"id": "g.a", "leaf": True, "sched": [False], "start": [datetime(2025, 1, 6, 9)], "end": [None]}],
           "ledger": {0: {"r1": {9: [("g.a", 3600.0)], 10: [("g.a", 1800.0)]}}}}
    titles, r = rows(spec, obs, ["id", "name", "start", "priority", "cost"], False, "%d.%m.%Y")
    assert titles == ["Id", "Name", "Start", "Priority", "Cost"]
    assert r[0][:4] == ["g", "g", "06.01.2025", "300"] and r[1] == ["g.a", "Alpha", "", "300", "75.00"]
    assert rows(spec, obs, ["id"], True, "%Y")[1] == [["g.a"]]
