"""'Wide' universe shared by the scheduling properties (C01-C06, C08, C10): larger projects than the product
universes of the single checks enumerate, varied by EVERY subset of at most k feature toggles.

Two base projects (10 leaf tasks, 3-level task nesting, 3-level resource tree, team, alternative, milestone,
container edge, a window that crosses the year boundary) x all subsets of <= 2 (quick) / <= 3 (thorough) of the
toggles below. Each property module evaluates its own oracle on every project of this universe (every scenario).
The universe is a complete enumeration over a declared alphabet; nothing is sampled.
"""
import copy
import itertools

from mc import oracles
from mc.props import common
from mc.ref.calendar import RefCalendar

TOGGLES = [
    "res15", "res10", "eff03", "eff15", "wkend", "leave", "vac", "limr", "limg", "limt", "gap", "prio", "alapE", "pin",
    "sc3", "sub", "month", "tz", "hours", "long", "r5", "deep", "dst", "rev", "shutdown", "night", "limmin", "many", "onstart", "cprio",
    "tfirst", "allocrev", "inrev", "vac2", "dup", "nest", "inh", "cdates",
]
LAST = ("rev", "inrev")   # toggles that permute what the others built: applied last
FIRST = ("month", "dst")   # toggles that move the window: applied first, dated attributes follow the window


def base(n):
    r1, r2, r3, r4 = ({"id": f"r{i}"} for i in (1, 2, 3, 4))
    resources = [{"id": "dept", "children": [{"id": "grp", "children": [r1, r2]}, r3]}, r4]
    if n == 0:
        tasks = [
            {"id": "A", "children": [
                {"id": "A1", "children": [
                    {"id": "A11", "effort": 300, "alloc": ["r1"]},
                    {"id": "A12", "effort": 200, "alloc": ["r2"], "deps": [{"ref": "!A11"}]},
                ]},
                {"id": "A2", "effort": 500, "alloc": ["r1"]},
            ]},
            {"id": "B", "effort": 700, "alloc": ["r1", "r2"]},
            {"id": "C", "effort": 400, "alloc": ["r3"], "alt": ["r4"]},
            {"id": "D", "milestone": True, "deps": [{"ref": "A"}, {"ref": "B"}]},
            {"id": "E", "effort": 350, "alloc": ["r4"], "deps": [{"ref": "D"}]},
            {"id": "F", "effort": 250, "alloc": ["r3"]},
            {"id": "G", "effort": 150, "alloc": ["r4"], "deps": [{"ref": "F"}]},
        ]
    else:
        # chain-heavy variant: a fan-in and a fan-out through a container edge, two tasks per resource
        tasks = [
            {"id": "S", "effort": 120, "alloc": ["r1"]},
            {"id": "A", "deps": [{"ref": "S"}], "children": [
                {"id": "A1", "effort": 260, "alloc": ["r1"]},
                {"id": "A2", "effort": 140, "alloc": ["r2"]},
                {"id": "A3", "children": [
                    {"id": "A31", "effort": 90, "alloc": ["r3"]},
                    {"id": "A32", "effort": 210, "alloc": ["r3"], "deps": [{"ref": "!A31"}]},
                ]},
            ]},
            {"id": "B", "effort": 480, "alloc": ["r2", "r3"], "deps": [{"ref": "A"}]},
            {"id": "C", "effort": 330, "alloc": ["r1"], "alt": ["r4"], "deps": [{"ref": "A.A1"}]},
            {"id": "D", "milestone": True, "deps": [{"ref": "B"}, {"ref": "C"}]},
            {"id": "E", "effort": 200, "alloc": ["r4"], "deps": [{"ref": "D"}]},
            {"id": "F", "effort": 610, "alloc": ["r4"]},
        ]
    return {"start": "2024-12-23", "dur": "8w", "resources": resources, "tasks": tasks}


def _res(spec, rid):
    from mc.render import walk_resources
    return next(r for _f, r, _p in walk_resources(spec["resources"]) if r["id"] == rid)


def _task(spec, fid):
    from mc.render import walk_tasks
    return next(t for f, t, _p in walk_tasks(spec["tasks"]) if f == fid)


def _day(spec, n, suffix=""):
    from datetime import datetime, timedelta
    return (datetime.strptime(spec["start"], "%Y-%m-%d") + timedelta(days=n)).strftime("%Y-%m-%d") + suffix


def apply(spec, tg, n, core=False):
    if tg == "res15":
        spec["res_min"] = 15
    elif tg == "res10":
        spec["res_min"] = 10
    elif tg == "eff03":
        _res(spec, "r1")["eff"] = 0.3
    elif tg == "eff15":
        _res(spec, "r2")["eff"] = 1.5
    elif tg == "wkend":
        spec.setdefault("shifts", []).append({"id": "wk", "hours": [("sat - sun", ["10:00 - 14:00"])]})
        r3 = _res(spec, "r3")
        r3["shift"] = "wk"
        r3.pop("hours", None)
        r3.pop("tz", None)
    elif tg == "leave":
        _res(spec, "r2").setdefault("leaves", []).append({"k": "leaves", "type": "annual", "a": _day(spec, 7), "b": _day(spec, 11)})
    elif tg == "vac":
        spec.setdefault("vacations", []).append((_day(spec, 9), None))
    elif tg == "limr":
        _res(spec, "r4")["limits"] = {"dailymax": "3h"}
    elif tg == "limg":
        _res(spec, "grp")["limits"] = {"weeklymax": "20h"}
    elif tg == "limt":
        _task(spec, "A")["limits"] = {"dailymax": "4h"}
    elif tg == "gap":
        t = _task(spec, "A.A1.A12" if n == 0 else "A.A3.A32")
        t["deps"][0]["gap"] = "90min"
        _task(spec, "E")["deps"][0]["gap"] = "1d"
    elif tg == "prio":
        _task(spec, "A.A2" if n == 0 else "F")["prio"] = 800
        _task(spec, "B")["prio"] = 300
    elif tg == "alapE":
        e = _task(spec, "E")
        e.pop("deps", None)
        e["sched"] = "alap"
        e["end"] = _day(spec, 46, "-15:00")
    elif tg == "pin":
        _task(spec, "A")["start"] = _day(spec, 10, "-11:00")
    elif tg == "sc3":
        spec["scenarios"] = [("plan", [("delayed", [("worse", [])])])]
        _task(spec, "B")["scen"] = [("delayed", "effort 1000min")]
        _task(spec, "F")["scen"] = [("worse", "effort 900min")]
    elif tg == "sub":
        for fid, m in (("B", 37), ("F", 53), ("E", 20)):
            _task(spec, fid)["effort"] = m
    elif tg == "month":
        spec["start"] = "2025-01-20"
    elif tg == "tz":
        _res(spec, "r4")["tz"] = "America/New_York"
        _res(spec, "r4")["hours"] = [("mon - fri", ["9:00 - 17:00"])]
    elif tg == "hours":
        _res(spec, "r1")["hours"] = [("mon - thu", ["8:00 - 12:00", "13:00 - 15:00"])]
        _res(spec, "r2")["hours"] = [("mon - fri", ["16:00 - 0:00"])]   # ends exactly ON midnight: nothing of it belongs to the next day
    elif tg == "long":
        _task(spec, "F")["effort"] = 4800
    elif tg == "r5":
        spec["resources"].append({"id": "r5"})
        c = _task(spec, "C")
        c["alt"] = c["alt"] + ["r5"]
        spec["tasks"].append({"id": "H", "effort": 640, "alloc": ["r5"]})
    elif tg == "dst":
        # the window crosses the daylight-saving switches of 2025-03-09 (New York) and 2025-03-30 (London); both zoned
        # resources work seven days a week, so the switch nights themselves are working days
        spec["start"] = "2025-03-03"
        r4, r3 = _res(spec, "r4"), _res(spec, "r3")
        r4["tz"], r4["hours"] = "America/New_York", [("mon - sun", ["9:00 - 17:00"])]
        if not r3.get("shift"):
            r3["tz"], r3["hours"] = "Europe/London", [("mon - sun", ["8:00 - 16:00"])]
        _task(spec, "F")["effort"] = max(_task(spec, "F")["effort"], 9600)
        _task(spec, "E")["effort"] = max(_task(spec, "E")["effort"], 6000)
        # two short high-priority tasks that begin and end ON the switch Sundays, right at the first local working hour after the switch
        spec["tasks"].append({"id": "swny", "effort": 120, "alloc": ["r4"], "prio": 950, "start": "2025-03-09-13:00"})
        if not r3.get("shift"):
            spec["tasks"].append({"id": "swldn", "effort": 120, "alloc": ["r3"], "prio": 950, "start": "2025-03-30-07:00"})
    elif tg == "shutdown":
        # a five-week project vacation in the middle of the window (contains a whole calendar month at some starts)
        spec.setdefault("vacations", []).append((_day(spec, 14), _day(spec, 49)))
    elif tg == "limmin":
        # limits written in minutes whose hour form is not representable (130 min = 13 slots of 10 min, 26 of 5 min)
        _res(spec, "r4")["limits"] = {"dailymax": "130min"}
        _res(spec, "r3")["limits"] = {"weeklymax": "490min"}
    elif tg == "many":
        # eleven or more tasks at the top level (two-digit positions), equal priorities, competing pairwise for r1 / r2
        for i in range(5):
            spec["tasks"].append({"id": f"n{i}", "effort": 120 + 60 * i, "alloc": ["r1" if i % 2 else "r2"]})
    elif tg == "onstart":
        # an on-start edge FOLLOWED by a plain edge in one depends list (the second edge is finish-to-start again)
        t = _task(spec, "G" if n == 0 else "E")
        if t.get("sched") != "alap":   # (an ALAP task keeps its end anchor and no dependencies)
            t["deps"] = [{"ref": "F" if n == 0 else "S", "onstart": True}] + [{"ref": "C"}] + [d for d in t.get("deps", []) if d["ref"] not in ("F", "S", "C")]
    elif tg == "cprio":
        # priorities written on CONTAINERS and inherited by their leaves (no leaf of A has a priority of its own)
        _task(spec, "A")["prio"] = 900
        _task(spec, "F")["prio"] = 600
    elif tg == "night":
        # a night shift that runs from Sunday evening: the after-midnight half of 'sun' belongs to Monday (weekday wrap)
        spec.setdefault("shifts", []).append({"id": "nt", "hours": [("sun - thu", ["22:00 - 6:00"])]})
        r3 = _res(spec, "r3")   # r3 carries a task without predecessors: it can start in the Monday-morning half at once
        r3["shift"] = "nt"
        r3.pop("hours", None)
        r3.pop("tz", None)
    elif tg == "tfirst":
        spec["tasks_first"] = True   # the whole task tree is written before the resources it allocates and restricts limits to
    elif tg == "allocrev":
        from mc.render import walk_tasks
        for _f, t, _p in walk_tasks(spec["tasks"]):   # team members listed in the opposite order
            if len(t.get("alloc") or []) > 1:
                t["alloc"] = list(reversed(t["alloc"]))
    elif tg == "inrev":
        from mc.render import walk_tasks
        for _f, t, _p in walk_tasks(spec["tasks"]):   # children of every container and entries of every depends list in the opposite order
            if t.get("children"):
                t["children"].reverse()
            if len(t.get("deps") or []) > 1:
                t["deps"].reverse()
    elif tg == "vac2":
        # days off of one kind written latest-first (project vacations, one resource's leaves)
        spec.setdefault("vacations", []).extend([(_day(spec, 30), _day(spec, 32)), (_day(spec, 16), None)])
        _res(spec, "r2").setdefault("leaves", []).extend([{"k": "leaves", "type": "annual", "a": _day(spec, 24)}, {"k": "leaves", "type": "annual", "a": _day(spec, 3)}])
    elif tg == "dup":
        # every allocate / depends / precedes / limits / leaves / vacation statement of the project is written TWICE (stating something
        # again changes nothing); the resources and the container that carry limits state them in the second copy as well
        spec["dup2"] = True
        _res(spec, "r4").setdefault("limits", {"dailymax": "6h"})
        _res(spec, "r2").setdefault("leaves", []).append({"k": "leaves", "type": "annual", "a": _day(spec, 17)})
        spec.setdefault("vacations", []).append((_day(spec, 22), None))
    elif tg == "nest":
        # days off inside, touching and overlapping other days off of the same kind (project vacations; the leaves of r2 and r3)
        spec.setdefault("vacations", []).extend([(_day(spec, 14), _day(spec, 21)), (_day(spec, 15), None), (_day(spec, 16), _day(spec, 18)),
                                                 (_day(spec, 21), _day(spec, 23)), (_day(spec, 22), _day(spec, 25))])
        for rid in ("r2", "r3"):
            _res(spec, rid).setdefault("leaves", []).extend([{"k": "leaves", "type": "annual", "a": _day(spec, 28), "b": _day(spec, 36)},
                                                             {"k": "leaves", "type": "sick", "a": _day(spec, 29)},
                                                             {"k": "vacation", "a": _day(spec, 31), "b": _day(spec, 33)},
                                                             {"k": "leaves", "type": "special", "a": _day(spec, 35), "b": _day(spec, 38)}])
    elif tg == "inh":
        # values that arrive by INHERITANCE: efficiency and a day off stated on the department, working hours on the group (members
        # that state their own value override it); a container that states the allocation (a team), a priority and a dependency
        # for the leaves below it - one of which, two levels down, overrides allocation and priority (with the default value 500)
        # under an inner container that has a dependency of its own
        dept, grp = _res(spec, "dept"), _res(spec, "grp")
        dept["eff"] = 0.5 if core else 0.8
        dept.setdefault("leaves", []).append({"k": "leaves", "type": "annual", "a": _day(spec, 10)})
        grp["hours"] = [("mon - fri", ["8:00 - 16:00"])]
        spec["tasks"].append({"id": "T", "prio": 650, "stmt_alloc": ["r1", "r2"], "deps": [{"ref": "F" if n == 0 else "S"}], "children": [
            {"id": "t1", "effort": 120, "alloc": ["r1", "r2"], "inh": ["alloc"]},
            {"id": "Tin", "deps": [{"ref": "C"}], "children": [
                {"id": "t2", "effort": 60, "alloc": ["r1", "r2"], "inh": ["alloc"]},
                {"id": "t3", "effort": 60, "alloc": ["r4"], "prio": 500, "deps": [{"ref": "!t2"}]}]}]})
    elif tg == "cdates":
        # dates typed on a CONTAINER that its children do not keep to (they start later than the typed start and run past the
        # typed end): successors - on-end and on-start - follow the children's real span, not the typed dates
        a = _task(spec, "A")
        a.setdefault("start", _day(spec, 0, "-09:00"))
        a["end"] = _day(spec, 1, "-17:00")
        spec["tasks"].append({"id": "os", "effort": 120, "alloc": ["r4"], "prio": 400, "deps": [{"ref": "A", "onstart": True}]})
        spec["tasks"].append({"id": "oe", "effort": 60, "alloc": ["r3"], "prio": 400, "deps": [{"ref": "A"}]})
        # a container that holds nothing but DATED milestones (it is complete before any work is placed) and a high-priority task
        # that waits for it, competing with lower-priority work for r4
        spec["tasks"].append({"id": "K", "children": [{"id": "k1", "milestone": True, "start": _day(spec, 0, "-10:00")},
                                                       {"id": "k2", "milestone": True, "start": _day(spec, 0, "-11:00")}]})
        spec["tasks"].append({"id": "hiK", "effort": 240, "alloc": ["r4"], "prio": 800, "deps": [{"ref": "K"}]})
    elif tg == "rev":
        spec["tasks"].reverse()   # dependents are declared before what they wait for (ties: declaration order)
    elif tg == "deep":
        # one more nesting level around F's successor chain
        spec["tasks"].append({"id": "X", "children": [{"id": "X1", "children": [{"id": "X11", "children": [
            {"id": "x", "effort": 180, "alloc": ["r2"], "deps": [{"ref": "F"}]}]}]}]})
        # one leaf closes three container levels at once; a high-priority task waits for the OUTERMOST of them
        spec["tasks"].insert(0, {"id": "afterX", "effort": 120, "alloc": ["r2"], "prio": 900, "deps": [{"ref": "X"}]})
    else:
        raise ValueError(tg)


def to_spec(item):
    spec = copy.deepcopy(base(item["b"]))
    ts = [t for t in item["t"] if t in FIRST] + [t for t in item["t"] if t not in FIRST and t not in LAST] + [t for t in item["t"] if t in LAST]
    for tg in ts:
        apply(spec, tg, item["b"])
    return spec


def universe(tier):
    k = 2 if tier == "quick" else 3
    for b in (0, 1):
        for n in range(k + 1):
            for ts in itertools.combinations(TOGGLES, n):
                if ("res15" in ts and "res10" in ts) or ("month" in ts and "dst" in ts):
                    continue
                yield {"kind": "wide", "b": b, "t": list(ts)}


# ---- core-dialect variant for C07 (forward, whole-slot efforts, slot-aligned gaps, no alternatives) ---------------

TOGGLES7 = ["res30", "res15", "res10", "effhalf", "wkend", "leave", "vac", "limr", "limg", "limt", "gap", "prio", "pin", "month", "tz",
            "hours", "long", "r5", "deep", "dst", "rev", "shutdown", "night", "limmin", "many", "onstart", "cprio",
            "tfirst", "allocrev", "inrev", "vac2", "dup", "nest", "inh", "cdates"]


def to_spec7(item):
    from mc.render import walk_tasks
    spec = copy.deepcopy(base(item["b"]))
    for _f, t, _p in walk_tasks(spec["tasks"]):
        if t.get("effort"):
            t["effort"] = max(60, int(round(t["effort"] / 60.0)) * 60)
        t.pop("alt", None)
    ts = [t for t in item["t"] if t in FIRST] + [t for t in item["t"] if t not in FIRST and t not in LAST] + [t for t in item["t"] if t in LAST]
    for tg in ts:
        if tg == "res30":
            spec["res_min"] = 30
        elif tg == "effhalf":
            for rid in ("r1", "r2", "r3", "r4"):   # every member of every team: C07 does not rank unequal efficiencies
                _res(spec, rid)["eff"] = 0.5
        elif tg == "gap":
            t = _task(spec, "A.A1.A12" if item["b"] == 0 else "A.A3.A32")
            t["deps"][0]["gap"] = "2h"
            _task(spec, "E")["deps"][0]["gap"] = "1d"
        elif tg == "r5":
            spec["resources"].append({"id": "r5"})
            spec["tasks"].append({"id": "H", "effort": 660, "alloc": ["r5"], "deps": [{"ref": "C"}]})
        else:
            apply(spec, tg, item["b"], core=True)
    return spec


def universe7(tier):
    k = 2 if tier == "quick" else 3
    for b in (0, 1):
        for n in range(k + 1):
            for ts in itertools.combinations(TOGGLES7, n):
                if sum(t.startswith("res") for t in ts) > 1 or ("month" in ts and "dst" in ts):
                    continue
                yield {"kind": "wide7", "b": b, "t": list(ts)}


# ---- bases for C09: forward projects of the wide universe x an added lowest-priority task -------------------------

def universe9(tier):
    for b in (0, 1):
        if tier == "quick":
            sets = [()] + [(t,) for t in TOGGLES if t != "rev"] + [(t, "rev") for t in TOGGLES if t != "rev"] + [("rev",)]
        else:
            sets = [ts for n in range(3) for ts in itertools.combinations(TOGGLES, n)
                    if not (("res15" in ts and "res10" in ts) or ("month" in ts and "dst" in ts))]
        for ts in sets:
            for res in ("r1", "r2", "r3", "r4"):
                for m in (30, 600):
                    for pos in ("first", "mid", "last"):
                        yield {"kind": "wide9", "wb": {"b": b, "t": list(ts)}, "in": {"m": m, "res": res, "pos": pos}}
                # the added task repeats the id of an existing task that has dependents (a copy-pasted block, declared last): references
                # keep meaning the first task of that name, so still nothing depends on the added one
                yield {"kind": "wide9", "wb": {"b": b, "t": list(ts)}, "in": {"m": 600, "res": res, "pos": "last", "dup": "F" if b == 0 else "S"}}
                # the added task inherits its (lowest) priority from a container of its own
                yield {"kind": "wide9", "wb": {"b": b, "t": list(ts)}, "in": {"m": 600, "res": res, "pos": "first", "wrap": True}}


def specs9(item):
    b = to_spec(item["wb"])
    w = copy.deepcopy(b)
    i = item["in"]
    t = {"id": i.get("dup") or "zz", "effort": i["m"], "alloc": [i["res"]], "prio": 1}
    if i.get("wrap"):
        t = {"id": "bg", "prio": 1, "children": [{"id": "zz", "effort": i["m"], "alloc": [i["res"]]}]}
    w["tasks"].insert({"first": 0, "mid": len(w["tasks"]) // 2}.get(i["pos"], len(w["tasks"])), t)
    return b, w


# ---- evaluation: one function per property --------------------------------------------------------------

def _run(item, monitor=False):
    spec = to_spec(item)
    obs = common.run_spec(spec, monitor_ledger=monitor)
    return spec, obs


def _wrap(item, fn, monitor=False):
    spec, obs = _run(item, monitor)
    if obs.get("error"):
        return common.errored(item, obs)
    r = common.base_result(item, obs)
    v, nt = fn(spec, obs)
    r["v"] = common.dedup(v)
    r["nt"] = bool(nt)
    return r


def eval_c01(item):
    def fn(spec, obs):
        v, sh = list(obs["intermediate"]), 0
        for sc in range(obs["nsc"]):
            vv, s = oracles.c01_ledger(obs, sc)
            v += vv
            sh += s
        return v, sh
    return _wrap(item, fn, monitor=True)


def eval_c02(item):
    def fn(spec, obs):
        cal = RefCalendar(spec)
        v, n = [], 0
        for sc in range(obs["nsc"]):
            vv, k = oracles.c02_calendar(spec, obs, sc, cal)
            v += vv
            n += k
        return v, n
    return _wrap(item, fn)


def eval_c03(item):
    def fn(spec, obs):
        v = []
        for sc in range(obs["nsc"]):
            v += oracles.c03_effort(scen_spec(spec, obs, sc), obs, sc)
        return v, True
    return _wrap(item, fn)


def eval_c04(item):
    def fn(spec, obs):
        v, n = [], 0
        for sc in range(obs["nsc"]):
            vv, tight, checked = oracles.c04_deps(spec, obs, sc)
            v += vv
            n += tight
        return v, n
    return _wrap(item, fn)


def eval_c05(item):
    def fn(spec, obs):
        v, n = [], 0
        for sc in range(obs["nsc"]):
            vv, b = oracles.c05_limits(spec, obs, sc)
            v += vv
            n += b
        return v, n
    return _wrap(item, fn)


def eval_c06(item):
    def fn(spec, obs):
        v, n = [], 0
        for sc in range(obs["nsc"]):
            vv, k = oracles.c06_frame(spec, obs, sc)
            v += vv
            n += k
            vv, k = oracles.c06_milestones(spec, obs, sc)
            v += vv
            vv, _sh = oracles.c01_ledger(obs, sc)
            v += [("frame-overlap", d) for c, d in vv if c == "overlap"]
        return v, n
    return _wrap(item, fn)


def eval_c08(item):
    def fn(spec, obs):
        cal = RefCalendar(spec)
        v, n = [], 0
        for sc in range(obs["nsc"]):
            vv, k = oracles.c08_idle(spec, obs, sc, cal)
            v += vv
            n += k
        return v, n
    return _wrap(item, fn)


def eval_c10(item):
    def fn(spec, obs):
        v, n = [], 0
        for sc in range(obs["nsc"]):
            vv, k = oracles.c10_containers(spec, obs, sc)
            v += vv
            n += k
        return v, n
    return _wrap(item, fn)


def scen_spec(spec, obs, sc):
    return spec


def payload(item, clause, detail):
    from mc import render
    spec = to_spec(item)
    return {"item": item, "detail": detail, "spec": spec, "tjp": render.render(spec), "mode": item.get("mode", "rebuilt")}


def sample(item):
    from mc import render
    return {"item": item, "tjp": render.render(to_spec(item))}


def sweep(ctx, st, prop):
    """every member of the universe with the extensions rebuilt from the tree's .pyx, and every member with <= 1 toggle
    (thorough: <= 2) once more on the pure-Python fallbacks (the item carries the mode for the replay file)"""
    from mc.run import explore
    explore(ctx, universe(ctx.tier), f"mc.props.wide:eval_{prop.lower()}", st, payload=payload, sample_of=sample)
    k = 1 if ctx.tier == "quick" else 2
    pure = [dict(it, mode="blocked") for it in universe(ctx.tier) if len(it["t"]) <= k]
    explore(ctx, pure, f"mc.props.wide:eval_{prop.lower()}", st, mode="blocked", payload=payload, sample_of=sample)


NOTE = ("'wide' family (all members with the compiled extensions, the members with <= 1 toggle - thorough <= 2 - again on the pure-Python fallbacks): 2 ten-task base projects (3-level task and resource trees, team, alternative, milestone, container edges, "
        "window across the year boundary) x every subset of <= 2 (thorough: <= 3) of 38 feature toggles (resolution 15/10 min, efficiency "
        "0.3/1.5, weekend-only resource, leaves, vacation, resource/group/task limits, gaps, priorities, ALAP task, container pin, third "
        "scenario, sub-slot efforts, month boundary, time zone, split hours, multi-week effort, fifth resource, 5-level nesting, a window across two daylight-saving switches with zoned seven-day resources, reversed declaration order, a five-week project vacation, a Sunday-to-Thursday night shift, limits in minutes that are no round number of hours, eleven or more top-level tasks, an on-start edge followed by a plain edge, priorities inherited from containers, the task tree written before the resources, team members listed in the opposite order, children and depends entries in the opposite order, days off written latest-first, every list-like statement written twice, days off nested in / touching / overlapping each other, values that arrive by inheritance from resource groups and task containers, typed container dates that the children do not keep to)")
