"""Pool-worker entry points for CLI runs (each job spawns one or more real `plan` processes)."""
import itertools
import os

from mc.cli import control

FAULTS = {
    "open-r": [("EACCES", 13), ("EIO", 5)],
    "open-w": [("ENOSPC", 28), ("EACCES", 13)],
    "os.mkdir": [("ENOSPC", 28), ("EACCES", 13)],
    "tempfile.mkstemp": [],      # the audit event only announces the candidate; the open-w that follows is the step
    "tempfile.mkdtemp": [],
    "stdout-write": [("EPIPE", 32)],
    "scandir": [],               # listing order alternatives are handled separately (permutations)
    "os.scandir": [], "os.listdir": [],
}


def is_probe(trace, i):
    """tempfile's own writability probe of $TMPDIR (random name directly under $TMP, before any plan_ file)."""
    e = trace[i]
    p = e.get("path") or ""
    if not p.startswith("$TMP/"):
        return False
    name = p[5:]
    return "/" not in name and not name.startswith("plan_")


def fault_points(trace):
    """[(k, event, [(label, answer)])] for every application step that can be faulted."""
    out = []
    for i, e in enumerate(trace):
        if e.get("cleanup") or is_probe(trace, i):
            continue
        alts = [(lab, {"act": "fail", "errno": no}) for lab, no in FAULTS.get(e["ev"], [])]
        prev = trace[i - 1]["ev"] if i else ""
        if (e["ev"] == "open-w" and prev == "tempfile.mkstemp") or (e["ev"] == "os.mkdir" and prev == "tempfile.mkdtemp"):
            alts.append(("EEXIST(first candidate name taken)", {"act": "fail", "errno": 17}))
        if alts:
            out.append((e["k"], e, alts))
    return out


def listing_points(trace):
    """[(k, names)] for every non-cleanup directory listing with >= 2 entries."""
    return [(e["k"], e["names"]) for e in trace if e["ev"] == "scandir" and not e.get("cleanup") and len(e.get("names") or []) >= 2]


def cli_job(job):
    """job: {args, stdin (bytes|None), files {name: bytes}, dirs [names], script {k: answer}, expect {k: [ev, path]}}"""
    script = {int(k): v for k, v in (job.get("script") or {}).items()}
    expect = {int(k): v for k, v in (job.get("expect") or {}).items()}
    diverged = []

    def decide(k, ev):
        if k in expect and [ev["ev"], ev["path"]] != list(expect[k]):
            diverged.append((k, ev["ev"], ev["path"], expect[k]))
        return script.get(k)

    r = control.run_single(job["args"], stdin_bytes=job.get("stdin"), files=job.get("files"), decide=decide, dirs=job.get("dirs"),
                           env=job.get("env"), tmp_symlink=bool(job.get("tmp_symlink")))
    return {
        "code": r["code"],
        "stdout": r["stdout"],
        "stderr": r["stderr"][-1500:],
        "trace": [{"k": e["k"], "ev": e["ev"], "path": e["path"], "cleanup": e.get("cleanup"), "names": e.get("names")} for e in r["trace"]],
        "tmp_left": r["tmp_left"],
        "cwd_changed": r["cwd_changed"],
        "cwd_new": r.get("cwd_new", {}),
        "diverged": diverged,
    }


def perms(n):
    return [list(p) for p in itertools.permutations(range(n))][1:]  # identity is the default run
