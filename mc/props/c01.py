"""C01 - a resource is never double-booked (DESIGN 4, C01).

Mode B: every history of `place(f, link)` operations up to a depth on one resource (forward, and the
backward mirror), each executed by the real scheduler; the ledger invariant is evaluated after every
booking and after every task placement. Mode A: complete small universe of 2-3 task projects (sub-slot
efforts, DAGs, teams, alternatives, priorities, efficiencies, ASAP/ALAP, resolutions).
"""
import itertools

from mc import oracles
from mc.props import common
from mc.run import Stats, explore

FRACS = [(1, 6), (1, 3), (1, 2), (2, 3), (1, 1), (4, 3), (3, 2), (2, 1)]
ASSUME = [
    "project start Monday 2025-01-06, default calendar (Mon-Fri 09-17), UTC, one or two leaf resources",
    "mode B alphabet: place(f, link), f in {1/6,1/3,1/2,2/3,1,4/3,3/2,2} slots of effort, link in {chained to the previous task, independent}; "
    "efficiency {1, 0.5}; L in {60, 30} min (thorough: + 20 and 5 min); forward and backward (project ALAP) mirror",
    "layout clause is the interval (preemptive) feasibility test with 1 s tolerance per task for the rounding of reported times",
]


def history_spec(cfg, hist):
    L, eff, alap = cfg
    tasks = []
    for i, (fi, link) in enumerate(hist):
        num, den = FRACS[fi]
        t = {"id": f"t{i}", "effort": L * num // den if (L * num) % den == 0 else f"{L * num / den:.4f}min", "alloc": ["r1"]}
        if link and i > 0:
            if alap:
                t["prec"] = [f"t{i - 1}"]
            else:
                t["deps"] = [f"t{i - 1}"]
        tasks.append(t)
    return {"res_min": L if L != 60 else None, "alap": alap, "resources": [{"id": "r1", "eff": eff}], "tasks": tasks}


def histories(tier):
    depth = 3 if tier == "quick" else 4
    cfgs = [(L, eff, alap) for L in ((60, 30) if tier == "quick" else (60, 30, 20, 5)) for eff in (1.0, 0.5) for alap in (False, True)]
    ops = [(fi, link) for fi in range(len(FRACS)) for link in (0, 1)]
    for d in range(1, depth + 1):
        for cfg in cfgs:
            for hist in itertools.product(ops, repeat=d):
                if hist[0][1]:
                    continue  # the first task has nothing to chain to
                yield {"kind": "hist", "cfg": cfg, "hist": hist}


def projects(tier):
    if tier == "quick":
        plans = [(2, [20, 40, 60, 80, 100, 150], (1.0, 0.5, 0.7), (60, 30)), (3, [20, 40, 90], (1.0,), (60,))]
    else:
        plans = [(2, [20, 40, 60, 80, 100, 150], (1.0, 0.5, 0.7), (60, 30, 15)), (3, [20, 40, 60, 90, 150], (1.0, 0.5), (60, 30))]
    for n, efforts, effs, Ls in plans:
        pairs = [(i, j) for i in range(n) for j in range(i + 1, n)]
        dags = []
        for k in range(len(pairs) + 1):
            for sub in itertools.combinations(pairs, k):
                dags.append(("fwd", sub))
                if sub:
                    dags.append(("rev", sub))
        prios = [None] + [p for p in itertools.permutations(range(n))]
        allocs = ["r1", "r1r2", "team", "alt"]
        for ef in itertools.product(efforts, repeat=n):
            for dag in dags:
                for alloc in allocs:
                    for prio in prios:
                        for eff in effs:
                            for alap in (False, True):
                                for L in Ls:
                                    yield {"kind": "proj", "n": n, "ef": ef, "dag": dag, "alloc": alloc, "prio": prio,
                                           "eff": eff, "alap": alap, "L": L}


def project_spec(it):
    n = it["n"]
    names = "abcd"
    tasks = []
    for i in range(n):
        t = {"id": names[i], "effort": it["ef"][i]}
        a = it["alloc"]
        if a == "r1":
            t["alloc"] = ["r1"]
        elif a == "r1r2":
            t["alloc"] = ["r1" if i % 2 == 0 else "r2"]
        elif a == "team":
            t["alloc"] = ["r1", "r2"]
        else:
            t["alloc"], t["alt"] = ["r1"], ["r2"]
        if it["prio"] is not None:
            t["prio"] = 300 + 200 * it["prio"][i]
        tasks.append(t)
    kind, sub = it["dag"]
    for i, j in sub:
        if kind == "fwd":
            tasks[j].setdefault("deps", []).append(names[i])
        else:
            tasks[i].setdefault("deps", []).append(names[j])
    return {"res_min": it["L"] if it["L"] != 60 else None, "alap": it["alap"],
            "resources": [{"id": "r1", "eff": it["eff"]}, {"id": "r2", "eff": it["eff"]}], "tasks": tasks}


def fracres(tier):
    """resolutions that are not whole minutes (the language accepts '7.5min'): two or three tasks back to back on one
    resource; evaluated with the compiled extensions AND with the pure-Python fallbacks (item carries the mode)"""
    for mode in ("rebuilt", "blocked"):
        for L in (7.5, 2.5, 0.5):
            for ef in ((45, 45), (20, 31, 8), (7, 8)):
                for alap in (False, True):
                    yield {"kind": "frac", "mode": mode, "L": L, "ef": ef, "alap": alap}


def slot0(tier):
    """the project starts exactly at a working slot (09:00): the first booked slot has index 0 (forward), and the window ends
    exactly at the shift end so that backward tasks use the last index; three or four sub-slot tasks share that slot"""
    import itertools as _it
    for L in (60, 30):
        for alap in (False, True):
            for n in (3, 4):
                for ef in _it.product((10, 15, 20, 120), repeat=n):
                    if tier == "quick" and n == 4 and ef[0] == 120:
                        continue
                    yield {"kind": "slot0", "L": L, "alap": alap, "ef": ef}


def slot0_spec(it):
    tasks = [{"id": "abcd"[i], "effort": m, "alloc": ["r1"], "prio": 900 - 100 * i} for i, m in enumerate(it["ef"])]
    return {"start": "2025-01-06-09:00", "dur": "8h", "res_min": it["L"] if it["L"] != 60 else None, "alap": it["alap"],
            "resources": [{"id": "r1"}], "tasks": tasks}


def dupids(tier):
    """leaf tasks with the SAME local id under different containers sharing slots of one resource"""
    import itertools as _it
    for L in (60, 30):
        for alap in (False, True):
            for ef in _it.product((20, 40, 50, 90), repeat=3):
                for deep in (False, True):
                    yield {"kind": "dupid", "L": L, "alap": alap, "ef": ef, "deep": deep}


def mixhold(tier):
    """mixed directions with whole-slot efforts: a backward task (alap + end, placed first) holds whole slots of r1; a forward task of r1
    has its dependency bound INSIDE one of those slots (a gap of half a slot / a milestone typed at half past) and must go past them"""
    for L in (60, 30):
        for via in ("gap", "milestone"):
            for hold in (1, 2):
                for proj_alap in (False, True):
                    yield {"kind": "mixhold", "L": L, "via": via, "hold": hold, "palap": proj_alap}


def mixhold_spec(it):
    L = it["L"]
    half = f"{L // 2}min"
    b = {"id": "b", "effort": it["hold"] * L, "alloc": ["r1"], "prio": 900, "sched": "alap", "end": "2025-01-06-12:00"}
    if it["via"] == "gap":
        pre = {"id": "p", "effort": L, "alloc": ["r2"], "sched": "asap", "start": "2025-01-06-10:00"}
        f = {"id": "f", "effort": 2 * L, "alloc": ["r1"], "sched": "asap", "deps": [{"ref": "p", "gap": half}]}
    else:
        pre = {"id": "p", "milestone": True, "sched": "asap", "start": "2025-01-06-11:30" if L == 60 else "2025-01-06-11:45"}
        f = {"id": "f", "effort": 2 * L, "alloc": ["r1"], "sched": "asap", "deps": ["p"]}
    return {"res_min": L if L != 60 else None, "dur": "1w", "alap": it["palap"], "resources": [{"id": "r1"}, {"id": "r2"}], "tasks": [b, pre, f]}


def dupid_spec(it):
    e = it["ef"]
    leaf = lambda i, m: {"id": i, "effort": m, "alloc": ["r1"]}  # noqa: E731
    return {"res_min": it["L"] if it["L"] != 60 else None, "alap": it["alap"], "resources": [{"id": "r1"}],
            "tasks": [{"id": "phase1", "children": [leaf("impl", e[0])]},
                      {"id": "phase2", "children": [leaf("impl", e[1])] if not it.get("deep") else [{"id": "sub", "children": [leaf("impl", e[1])]}]}, leaf("wrap", e[2])]}


def frac_spec(it):
    tasks = [{"id": "abc"[i], "effort": m, "alloc": ["r1"], "prio": 900 - i} for i, m in enumerate(it["ef"])]
    return {"dur": "1w", "res_min": it["L"], "alap": it["alap"], "resources": [{"id": "r1"}], "tasks": tasks}


def to_spec(item):
    if item["kind"] == "frac":
        return frac_spec(item)
    if item["kind"] == "slot0":
        return slot0_spec(item)
    if item["kind"] == "dupid":
        return dupid_spec(item)
    if item["kind"] == "mixhold":
        return mixhold_spec(item)
    if item["kind"] == "tb":
        from mc.props import c03
        return c03.tb_spec(item)
    return history_spec(item["cfg"], item["hist"]) if item["kind"] == "hist" else project_spec(item)


def evaluate(item):
    if isinstance(item, dict) and item.get("kind") == "wide":
        from mc.props import wide
        return wide.eval_c01(item)
    spec = to_spec(item)
    obs = common.run_spec(spec, monitor_ledger=True)
    if obs.get("error"):
        r = common.errored(item, obs)
        return r
    r = common.base_result(item, obs)
    v = list(obs["intermediate"])
    shared = 0
    for sc in range(obs["nsc"]):
        vv, sh = oracles.c01_ledger(obs, sc)
        v += vv
        shared += sh
    r["v"] = common.dedup(v)
    r["nt"] = shared > 0
    # canonical ledger state: per resource and slot the ordered seconds with task identity erased
    led = obs["ledger"].get(0, {})
    import hashlib
    canon = sorted((res, s, tuple(round(q, 3) for _t, q in lst)) for res, slots in led.items() for s, lst in slots.items())
    r["s"] = hashlib.sha1(repr(canon).encode()).hexdigest()[:16]
    return r


def payload(item, clause, detail):
    from mc import render
    spec = to_spec(item)
    return {"item": item, "detail": detail, "spec": spec, "tjp": render.render(spec), "mode": item.get("mode", "rebuilt")}


def sample(item):
    from mc import render
    return {"item": item, "tjp": render.render(to_spec(item))}


def run(ctx):
    st = Stats()
    explore(ctx, histories(ctx.tier), "mc.props.c01:evaluate", st, payload=payload, sample_of=sample)
    nh = st.evaluations
    explore(ctx, projects(ctx.tier), "mc.props.c01:evaluate", st, payload=payload, sample_of=sample)
    from mc.props import c03
    explore(ctx, c03.team_blockers(ctx.tier), "mc.props.c01:evaluate", st, payload=payload, sample_of=sample)
    explore(ctx, slot0(ctx.tier), "mc.props.c01:evaluate", st, payload=payload, sample_of=sample)
    explore(ctx, dupids(ctx.tier), "mc.props.c01:evaluate", st, payload=payload, sample_of=sample)
    explore(ctx, mixhold(ctx.tier), "mc.props.c01:evaluate", st, payload=payload, sample_of=sample)
    for mode in ("rebuilt", "blocked"):
        explore(ctx, [it for it in fracres(ctx.tier) if it["mode"] == mode], "mc.props.c01:evaluate", st, mode=mode, payload=payload, sample_of=sample)
    from mc.props import wide
    wide.sweep(ctx, st, "C01")
    common.vacuity_guard(ctx, st)
    cov = st.coverage(
        "mode B: all operation histories place(f,link)^d, d <= depth, x (resolution, efficiency, direction); mode A: complete product "
        "universe of 2-3 task projects; states = distinct canonical ledgers (task identity erased); transitions = task placements + "
        "bookings executed by the real scheduler (the sum/counter invariant is evaluated after each); non-trivial = some slot of a "
        "resource is shared by >= 2 tasks",
        histories=nh, projects_and_team_blocker_cases=st.evaluations - nh, history_depth=3 if ctx.tier == "quick" else 4)
    return ctx.finish(cov, ASSUME + [wide.NOTE])


def replay(path):
    return common.generic_replay(path, evaluate)
