"""C18 - reports say what was scheduled (DESIGN 4, C18).

Scheduled projects x column selections x time formats x leaf-only flag x output formats. The real
Report.generate() / to_json() / to_csv() are compared cell by cell with RefReport (recomputed from the
observed dates and ledger), JSON with CSV, files with API values, and task attributes + ledger before and
after generating 1, 2 and 3 times.
"""
import csv
import io
import itertools
import json
import os
import shutil
import tempfile

from mc import observe, render
from mc.props import common
from mc.ref import report as refreport
from mc.run import Stats, explore

ASSUME = [
    "projects: 10 of 3-6 tasks (containers, unschedulable, team, teams listed against the declaration order, rates inherited from groups and overridden by rate 0, allocations with alternatives, ALAP, shared short ids, rates) + one task per day across the 2024/25 year end; task reports only; columns from {id, name, start, end, priority, cost}; quick: ordered selections of <= 2 columns, thorough: <= 3",
    "effective time format: the report's `timeformat`, else the project's, else %Y-%m-%d",
    "cost = sum over the task's ledger entries of rate x booked seconds / 3600, two decimals, empty when zero; container cost cells are not judged",
    "rows: every task in declaration order; leaves only when `leaftasksonly true`; unscheduled tasks have empty start/end",
]
COLS = ["id", "name", "start", "end", "priority", "cost"]
RFMT = [None, "%d.%m.%Y %H:%M", "%Y-%m-%d"]
PFMT = [None, "%Y/%m/%d %H"]


def projects():
    T = lambda i, m, r="r1", **kw: {"id": i, "effort": m, "alloc": [r], **kw}  # noqa: E731
    R = [{"id": "r1", "rate": 50.0}, {"id": "r2", "rate": 12.5, "eff": 0.7}, {"id": "r3"}]
    dead = {"id": "rdead", "rate": 10.0, "leaves": [{"k": "leaves", "type": "annual", "a": "2025-01-07", "b": "2026-01-01"}]}
    ps = []
    ps.append({"resources": R, "tasks": [T("a", 90, name="Alpha"), T("b", 150, "r2", deps=["a"], prio=700), T("c", 45, "r3")]})
    ps.append({"resources": R, "tasks": [{"id": "g", "prio": 300, "children": [T("a", 100), {"id": "h", "children": [T("b", 200, "r2"), {"id": "m", "milestone": True, "deps": ["!b"]}]}]},
                                         T("z", 30, deps=["g"])]})
    ps.append({"resources": R, "tasks": [{"id": "g", "children": [T("a", 90), T("bad", 60, deps=["!bad"])]}, T("c", 60, deps=["g"]), T("d", 20, "r2")]})
    ps.append({"resources": R + [dead], "tasks": [T("a", 60), T("run", 600, "rdead"), T("after", 30, deps=["run"])]})
    ps.append({"resources": R, "tasks": [{"id": "t", "effort": 100, "alloc": ["r1", "r2"]}, T("u", 20, deps=["t"]), T("v", 20, "r1", prio=900)]})
    ps.append({"alap": True, "resources": R, "tasks": [T("a", 90), T("b", 150, "r2", deps=["a"]), {"id": "g", "end": "2025-01-15-17:00", "children": [T("c", 200)]}]})
    ps.append({"resources": R, "tasks": [{"id": "phase", "children": [{"id": "build", "children": [T("core", 60), {"id": "ui", "children": [T("x", 30, "r2")]}]}, T("test", 45, deps=["!build"])]},
                                         {"id": "ops", "children": [T("deploy", 30, "r3"), {"id": "hand", "children": [T("docs", 20, "r3")]}]}]})
    ps.append({"resources": R, "tasks": [{"id": "web", "children": [T("design", 300), T("code", 60, "r2")]},
                                         {"id": "app", "children": [T("design", 180), T("code", 90, "r2", deps=["!design"])]}, T("design", 30, "r3")]})
    # teams whose members are listed against the order in which the resources are declared (one allocate statement, and two)
    R3 = [{"id": "r1", "rate": 50.0}, {"id": "r2", "rate": 12.5}, {"id": "r3", "rate": 7.0}]
    ps.append({"resources": R3, "tasks": [{"id": "rev", "effort": 240, "alloc": ["r3", "r1"]}, {"id": "two", "effort": 120, "alloc": ["r2"], "raw": ["allocate r1"], "deps": ["rev"]},
                                          {"id": "mid", "effort": 180, "alloc": ["r2", "r3", "r1"], "deps": ["two"]}]})
    # rates that arrive by inheritance from resource groups, overridden by 'rate 0' one and two levels down; an allocation with an
    # alternative (the cost belongs to whoever did the work)
    RG = [{"id": "dept", "rate": 40.0, "children": [{"id": "a1"}, {"id": "a0", "rate": 0}, {"id": "sub", "rate": 0, "children": [{"id": "s1"}, {"id": "s2", "rate": 15.0}]}]},
          {"id": "ext", "rate": 90.0}]
    ps.append({"resources": RG, "tasks": [T("p", 120, "a1"), T("q", 90, "a0"), {"id": "g", "children": [T("u", 60, "s1"), T("v", 150, "s2")]},
                                          {"id": "team", "effort": 120, "alloc": ["a1", "a0", "s2"], "deps": ["p"]},
                                          {"id": "alt", "effort": 180, "alloc": ["a1"], "alt": ["ext", "s2"], "prio": 300},
                                          {"id": "alt2", "effort": 60, "alloc": ["ext"], "alt": ["a0"], "deps": ["q"]}]})
    # tasks that stay unscheduled because nobody is allocated, although dates are TYPED on them or on their container
    ps.append({"resources": R, "tasks": [T("a", 90), {"id": "n3", "effort": 180, "start": "2025-01-07-09:00", "end": "2025-01-08-12:00"},
                                         {"id": "n4", "effort": 120, "sched": "alap", "end": "2025-01-10-17:00"},
                                         {"id": "g", "start": "2025-01-08-09:00", "end": "2025-01-15-17:00", "children": [T("ok", 60, "r2"), {"id": "nobody", "effort": 240}]},
                                         T("z", 30, deps=["a"])]})
    # the project starts at 09:00, inside working time: the first task's first booked slot is slot number 0
    ps.append({"start": "2025-01-06-09:00", "resources": R, "tasks": [T("a", 360), T("b", 120, "r2"), T("c", 240, deps=["a"])]})
    # one task per calendar day across a year end (dates whose ISO week-year / week number differ from the calendar year's)
    ps.append({"start": "2024-12-27", "resources": [{"id": "r1", "rate": 8.0, "hours": [("mon - sun", ["9:00 - 17:00"])]}],
               "tasks": [{"id": "g", "children": [T(f"d{i}", 480, **({"deps": [f"!d{i - 1}"]} if i else {})) for i in range(8)]}]})
    return ps


def col_lists(tier):
    k = 2 if tier == "quick" else 3
    for n in range(1, k + 1):
        yield from itertools.permutations(COLS, n)


def scen_project_unsched():
    """task a fits in 'plan' and is out of the window (unscheduled) in 's2' only"""
    T = lambda i, m, r="r1", **kw: {"id": i, "effort": m, "alloc": [r], **kw}  # noqa: E731
    return {"scenarios": [("plan", [("s2", [])])], "resources": [{"id": "r1", "rate": 50.0}, {"id": "r2", "rate": 20.0}],
            "tasks": [T("a", 300, scen=[("s2", "start 2025-06-02-09:00")]), {"id": "g", "children": [T("b", 120, "r2", deps=["a"]), T("c", 60, "r2")]}]}


def scen_universe(tier):
    """a two-scenario project (scenario-specific effort) with one report per scenario, generated in either order"""
    cols_list = [("id", "cost"), ("id", "start", "end", "cost"), ("cost",), ("id", "end")]
    for cols in cols_list:
        for order in (("plan", "s2"), ("s2", "plan")):
            for fmts in (("json", "csv"), ("csv",)):
                yield {"pi": "scen", "cols": cols, "rf": "%Y-%m-%d %H:%M", "pf": None, "leaf": None, "fmts": fmts, "order": order}
                yield {"pi": "scen", "var": "unsched", "cols": cols, "rf": "%Y-%m-%d %H:%M", "pf": None, "leaf": None, "fmts": fmts, "order": order}


def universe(tier):
    yield from scen_universe(tier)
    for pi in range(len(projects())):
        for cols in col_lists(tier):
            for rf in RFMT:
                for pf in PFMT:
                    if tier == "quick" and not any(c in ("start", "end") for c in cols) and (rf or pf):
                        continue
                    for leaf in (None, True, False):
                        for fmts in (("json",), ("csv",), ("json", "csv")):
                            if tier == "quick" and fmts != ("json", "csv") and (leaf is not None or rf or pf):
                                continue
                            yield {"pi": pi, "cols": cols, "rf": rf, "pf": pf, "leaf": leaf, "fmts": fmts}


def scen_project():
    T = lambda i, m, r="r1", **kw: {"id": i, "effort": m, "alloc": [r], **kw}  # noqa: E731
    return {"scenarios": [("plan", [("s2", [])])], "resources": [{"id": "r1", "rate": 50.0}, {"id": "r2", "rate": 20.0}],
            "tasks": [T("a", 300, scen=[("s2", "effort 540min")]), {"id": "g", "children": [T("b", 120, "r2", deps=["a"]), T("c", 60, "r2", scen=[("s2", "effort 30min")])]}]}


def to_spec(it):
    if it["pi"] == "scen":
        spec = scen_project() if it.get("var") != "unsched" else scen_project_unsched()
        reps = []
        for sid in it["order"]:
            reps.append(f'taskreport rep_{sid} "rep_{sid}" {{\n  formats ' + ", ".join(it["fmts"]) + "\n  columns " + ", ".join(it["cols"]) +
                        f'\n  timeformat "{it["rf"]}"\n  scenarios {sid}\n}}')
        spec["reports"] = reps
        return spec
    spec = dict(projects()[it["pi"]])
    rep = ['taskreport rep "rep" {', "  formats " + ", ".join(it["fmts"]), "  columns " + ", ".join(it["cols"])]
    if it["rf"]:
        rep.append(f'  timeformat "{it["rf"]}"')
    if it["leaf"] is not None:
        rep.append("  leaftasksonly " + ("true" if it["leaf"] else "false"))
    rep.append("}")
    spec["reports"] = ["\n".join(rep)]
    if it["pf"]:
        spec["pattrs"] = [f'timeformat "{it["pf"]}"']
    return spec


def snapshot(project):
    o = observe.collect(project)
    return observe.sig(o), o


def evaluate(item):
    from scriptplan.report import ReportContext

    spec = to_spec(item)
    text = render.render(spec)
    project, err = observe.parse_only(text)
    r = {"k": render.key(item), "v": [], "nt": True, "s": "", "tr": 0}
    if err:
        r["v"] = [("crash", f"parse failed: {err}")]
        return r
    try:
        project.schedule()
    except Exception as e:  # noqa
        r["v"] = [("crash", f"schedule failed: {type(e).__name__}: {e}")]
        return r
    sig0, obs = snapshot(project)
    r["s"] = sig0
    tf = refreport.effective_timeformat(item["rf"], item["pf"])
    multi = item["pi"] == "scen"
    expected = {}
    if multi:
        for sid in item["order"]:
            expected[f"rep_{sid}"] = refreport.rows(spec, obs, list(item["cols"]), False, tf, sc=0 if sid == "plan" else 1)
    else:
        expected["rep"] = refreport.rows(spec, obs, list(item["cols"]), bool(item["leaf"]), tf)
    titles, exp = next(iter(expected.values()))
    v = []
    outdir = tempfile.mkdtemp(prefix="verif-c18-")
    try:
        project.outputDir = outdir
        reports = [rp for rp in project.reports]
        if len(reports) != len(expected):
            v.append(("report-count", f"{len(reports)} reports in the project, {len(expected)} declared"))
        for gen in (1, 2, 3):
            for rp in reports:
                ctx = ReportContext(project, rp)
                ctx.push()
                try:
                    rp.generate()
                    api_json = rp.to_json()
                    api_csv = rp.to_csv()
                finally:
                    ctx.pop()
                r["tr"] += 1
                rname = rp.name
                titles, exp = expected.get(rname, (titles, exp))
                # API vs reference
                jrows = [[rec.get(t.lower(), "<missing>") for t in titles] for rec in (api_json or {}).get("data", [])]
                crows = [list(row) for row in (api_csv or [])[1:]]
                if (api_json or {}).get("columns") != [t.lower() for t in titles]:
                    v.append(("columns", f"JSON columns {(api_json or {}).get('columns')} expected {[t.lower() for t in titles]}"))
                if api_csv and list(api_csv[0]) != titles:
                    v.append(("columns", f"CSV header {api_csv[0]} expected {titles}"))
                if jrows != crows:
                    v.append(("json-vs-csv", f"generation {gen}: JSON cells {jrows[:3]} differ from CSV cells {crows[:3]}"))
                for name, got in (("json", jrows), ("csv", crows)):
                    if len(got) != len(exp):
                        v.append(("rows", f"{name}: {len(got)} rows, expected {len(exp)} (tasks in declaration order, leaf-only={bool(item['leaf'])})"))
                        continue
                    for i, (g, e) in enumerate(zip(got, exp)):
                        for ci, (gc, ec) in enumerate(zip(g, e)):
                            if ec is not None and gc != ec:
                                v.append(("cell", f"{name} row {i} ({obs['tasks'][i]['id'] if not item['leaf'] else ''}) column {item['cols'][ci]}: "
                                                  f"report says {gc!r}, scheduled value renders as {ec!r}"))
                # files vs API
                for fmt in item["fmts"]:
                    path = os.path.join(outdir, f"{rname}.{fmt}")
                    if not os.path.exists(path):
                        v.append(("file-missing", f"{path} was not written"))
                        continue
                    if fmt == "json":
                        data = json.load(open(path))
                        if data.get("data") != (api_json or {}).get("data") or data.get("columns") != (api_json or {}).get("columns"):
                            v.append(("file-vs-api", f"{rname}.json differs from Report.to_json()"))
                    else:
                        frows = list(csv.reader(open(path, newline="")))
                        if frows != [list(map(str, row)) for row in api_csv]:
                            v.append(("file-vs-api", f"{rname}.csv differs from Report.to_csv()"))
                extra = sorted(set(os.listdir(outdir)) - {f"{n}.{f}" for f in item["fmts"] for n in expected})
                if extra:
                    v.append(("file-extra", f"unexpected files {extra}"))
            sig1, _o = snapshot(project)
            if sig1 != sig0:
                v.append(("schedule-altered", f"task dates / ledger changed after generating the report {gen} time(s)"))
    except Exception as e:  # noqa
        if type(e).__name__ == "ItemTimeout":
            raise
        v.append(("crash", f"report generation raised {type(e).__name__}: {e}"))
    finally:
        shutil.rmtree(outdir, ignore_errors=True)
    r["v"] = common.dedup(v)
    return r


def payload(item, clause, detail):
    return {"item": item, "detail": detail, "tjp": render.render(to_spec(item))}


def sample(item):
    return {"item": item, "tjp": render.render(to_spec(item))[-500:]}


def trait(item, clause, detail, fid):
    return False


def run(ctx):
    st = Stats()
    explore(ctx, universe(ctx.tier), "mc.props.c18:evaluate", st, payload=payload, sample_of=sample, trait=trait)
    cov = st.coverage(
        "8 scheduled projects (+ a two-scenario project with one report per scenario, generated in either order) (rates, efficiency, nested containers, milestone, unschedulable and run-away leaves, team, ALAP) x every "
        "ordered selection of <= 2 (thorough 3) columns x report/project time formats x leaf-only flag x formats, each generated 3 times; "
        "states = distinct schedule observations; transitions = report generations; every case is non-trivial (distinct cases counted)")
    return ctx.finish(cov, ASSUME)


def replay(path):
    return common.generic_replay(path, evaluate)
