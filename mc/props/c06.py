"""C06 - reported start and end frame exactly the booked work (DESIGN 4, C06).

Universe of C03 (single tasks every effort minute, pairs, teams, alternatives, C01 projects) plus chains
of three sub-slot tasks and milestones behind predecessors that end mid-slot, ASAP and ALAP.
"""
import itertools

from mc import oracles
from mc.props import c03, common
from mc.run import Stats, explore

ASSUME = c03.ASSUME[:2] + [
    "frame clauses allow 1 s for the rounding of reported times",
    "frame-overlap: the portions of all tasks sharing a slot of a resource must fit disjointly inside their reported intervals (interval feasibility, 1 s per task tolerance)",
    "milestone clause: forward milestones without own/inherited pin must sit at max(pred.end|start + gap); backward milestones without pin at min(successor.start - gap); gap is calendar time",
]


def chains(tier):
    effs = (20, 40, 50, 90) if tier == "quick" else (7, 20, 30, 40, 50, 90, 100)
    for L in (60, 30):
        for alap in (False, True):
            for ef in itertools.product(effs, repeat=3):
                yield {"kind": "chain", "L": L, "alap": alap, "ef": ef}
    for L in (60, 30, 15):
        for m in (20, 30, 45, 60, 90, 100):
            for gap in (None, "30min", "90min", "1h"):
                for onstart in (False, True):
                    yield {"kind": "ms", "L": L, "m": m, "gap": gap, "onstart": onstart}
                # the milestone is IMPLICIT (a task with neither effort nor the milestone keyword), also with an allocation; and a
                # predecessor that ends exactly with the working day (the bound is an instant at which nobody works)
                for mk in ("implicit", "implicit-alloc"):
                    yield {"kind": "ms", "L": L, "m": m, "gap": gap, "onstart": False, "mk": mk}
                for mk in ("explicit", "implicit", "implicit-alloc"):
                    yield {"kind": "ms", "L": L, "m": 450, "gap": gap, "onstart": False, "mk": mk}
                # a milestone behind a DATED container: the bound is the container's real span (roll-up of its children),
                # not the dates typed on the container
                for dated in ("end-late", "start-early", "both"):
                    for onstart in (False, True):
                        yield {"kind": "msc", "L": L, "m": m, "gap": gap, "onstart": onstart, "dated": dated}
                # a milestone INSIDE a dated container (one and two levels down): the typed start reaches it by inheritance and is only
                # a lower bound - its date is the later of that start and its dependency bound
                for cstart in ("2025-01-06-10:30", "2025-01-07-11:00", "2025-01-06-09:00"):
                    if True:
                        yield {"kind": "msi", "L": L, "m": m, "gap": gap, "cstart": cstart}
                # backward mirror: the milestone sits before a successor that starts mid-slot
                yield {"kind": "msb", "L": L, "m": m, "gap": gap}


def mixend(tier):
    """mixed directions with whole slots: a forward project, a backward anchor z (alap + end), its predecessor pre (no direction stated:
    pulled backward by propagation; one slot of effort or less) and a forward-PINNED task f that holds the last slots before z's start
    on pre's resource - pre has to walk back over them; its reported end must still lie in its last booked slot"""
    for L in (60, 30):
        for m in (L, L // 2, 2 * L):
            for held in (1, 2):
                for own in (False, True):
                    yield {"kind": "mixend", "L": L, "m": m, "held": held, "own": own}


def mixend_spec(it):
    L = it["L"]
    z = {"id": "z", "effort": 2 * L, "alloc": ["r2"], "sched": "alap", "end": "2025-01-09-15:00", "deps": ["pre"]}
    zstart_h = 15 - (2 * L) // 60 if L == 60 else 14
    f = {"id": "f", "effort": it["held"] * L, "alloc": ["r1"], "prio": 900, "sched": "asap",
         "start": f"2025-01-09-{zstart_h - it['held']:02d}:00" if L == 60 else f"2025-01-09-{13 if it['held'] == 2 else 13}:{'00' if it['held'] == 2 else '30'}"}
    pre = {"id": "pre", "effort": it["m"], "alloc": ["r1"], **({"sched": "alap"} if it["own"] else {})}
    return {"res_min": L if L != 60 else None, "dur": "1w", "resources": [{"id": "r1"}, {"id": "r2"}],
            "tasks": [{"id": "w", "effort": 120, "alloc": ["r1"]}, pre, f, z]}


def mixdir(tier):
    """a forward and a backward task of one resource that meet in ONE slot (the forward one fills it from the front, the backward one
    from the back): sub-slot efforts that fit the slot together, either task placed first (open finding D69)"""
    for L in (60, 30):
        for ea in (L // 3, L // 2):
            for ez in (L // 3, L // 2):
                for first in ("asap", "alap"):
                    for more in (False, True):
                        yield {"kind": "mixdir", "L": L, "ea": ea, "ez": ez, "first": first, "more": more}


def mixdir_spec(it):
    L = it["L"]
    a = {"id": "a", "effort": it["ea"], "alloc": ["r1"], "prio": 900 if it["first"] == "asap" else 300}
    z = {"id": "z", "effort": it["ez"], "alloc": ["r1"], "sched": "alap", "end": "2025-01-06-10:00" if L == 60 else "2025-01-06-09:30", "prio": 600}
    tasks = [a, z] + ([{"id": "after", "effort": 60, "alloc": ["r1"], "prio": 100, "deps": ["a"]}] if it["more"] else [])
    return {"res_min": L if L != 60 else None, "dur": "1w", "resources": [{"id": "r1"}], "tasks": tasks}


def trait(item, clause, detail, fid):
    """Guards --learn: D69 may only be recorded for the mixdir family."""
    return fid == "D69" and isinstance(item, dict) and item.get("kind") == "mixdir"


def to_spec(it):
    k = it["kind"]
    if k == "mixdir":
        return mixdir_spec(it)
    if k == "mixend":
        return mixend_spec(it)
    if k == "chain":
        L = it["L"]
        tasks = []
        for i, m in enumerate(it["ef"]):
            t = {"id": f"t{i}", "effort": m, "alloc": ["r1"]}
            if i:
                t["prec" if it["alap"] else "deps"] = [f"t{i - 1}"]
            tasks.append(t)
        return {"res_min": L if L != 60 else None, "alap": it["alap"], "resources": [{"id": "r1"}], "tasks": tasks}
    if k == "ms":
        L = it["L"]
        d = {"ref": "a"}
        if it["gap"]:
            d["gap"] = it["gap"]
        if it["onstart"]:
            d["onstart"] = True
        return {"res_min": L if L != 60 else None, "resources": [{"id": "r1"}, {"id": "r2"}],
                "tasks": [{"id": "w", "effort": 30, "alloc": ["r1"]},
                          {"id": "a", "effort": it["m"], "alloc": ["r1"], "deps": ["w"]},
                          {"explicit": {"id": "m", "milestone": True, "deps": [d]}, "implicit": {"id": "m", "deps": [d]},
                           "implicit-alloc": {"id": "m", "alloc": ["r2"], "deps": [d]}}[it.get("mk", "explicit")],
                          {"id": "after", "effort": 30, "alloc": ["r1"], "deps": ["m"]}]}
    if k == "msc":
        L = it["L"]
        d = {"ref": "g"}
        if it["gap"]:
            d["gap"] = it["gap"]
        if it["onstart"]:
            d["onstart"] = True
        g = {"id": "g", "children": [{"id": "w", "effort": 120, "alloc": ["r1"], "start": "2025-01-07-10:00"}, {"id": "a", "effort": it["m"], "alloc": ["r1"], "deps": ["!w"]}]}
        if it["dated"] in ("end-late", "both"):
            g["end"] = "2025-01-10-17:00"
        if it["dated"] in ("start-early", "both"):
            g["start"] = "2025-01-06-09:00"
        return {"res_min": L if L != 60 else None, "resources": [{"id": "r1"}, {"id": "r2"}],
                "tasks": [g, {"id": "m", "milestone": True, "deps": [d]}, {"id": "after", "effort": 30, "alloc": ["r2"], "deps": ["m"]}]}
    if k == "msi":
        L = it["L"]
        d = {"ref": "build"}
        d2 = {"ref": "!!pack"}
        if it["gap"]:
            d["gap"] = it["gap"]
            d2["gap"] = it["gap"]
        rel = {"id": "rel", "start": it["cstart"], "children": [
            {"id": "sign", "milestone": True, "deps": [d]},
            {"id": "pack", "effort": 100, "alloc": ["r2"], "deps": ["build"]},
            {"id": "qa", "children": [{"id": "done", "milestone": True, "deps": [d2]}, {"id": "chk", "effort": 30, "alloc": ["r2"], "deps": ["!done"]}]}]}
        return {"res_min": L if L != 60 else None, "resources": [{"id": "r1"}, {"id": "r2"}],
                "tasks": [{"id": "build", "effort": it["m"] + 200, "alloc": ["r1"]}, rel, {"id": "after", "effort": 30, "alloc": ["r1"], "deps": ["rel.sign"]}]}
    if k == "msb":
        L = it["L"]
        d = {"ref": "m"}
        if it["gap"]:
            d["gap"] = it["gap"]
        return {"res_min": L if L != 60 else None, "alap": True, "resources": [{"id": "r1"}, {"id": "r2"}],
                "tasks": [{"id": "a", "effort": 50, "alloc": ["r1"]},
                          {"id": "m", "milestone": True, "deps": ["a"]},
                          {"id": "after", "effort": it["m"], "alloc": ["r1"], "deps": [d], "end": "2025-01-17-17:00"},
                          {"id": "other", "effort": 30, "alloc": ["r2"], "deps": ["m"], "end": "2025-01-17-12:00"}]}
    if k == "dupid":
        from mc.props import c01
        return c01.dupid_spec(it)
    return c03.to_spec(it)


def evaluate(item):
    if isinstance(item, dict) and item.get("kind") == "wide":
        from mc.props import wide
        return wide.eval_c06(item)
    spec = to_spec(item)
    obs = common.run_spec(spec)
    if obs.get("error"):
        return common.errored(item, obs)
    r = common.base_result(item, obs)
    v, nwork, nms = [], 0, 0
    for sc in range(obs["nsc"]):
        vv, n = oracles.c06_frame(spec, obs, sc)
        v += vv
        nwork += n
        vv, n = oracles.c06_milestones(spec, obs, sc)
        v += vv
        nms += n
        # the reported intervals must leave room for the booked work: if the portions of the tasks sharing a slot cannot
        # be laid out inside their reported [start, end], some report does not frame its work
        vv, _sh = oracles.c01_ledger(obs, sc)
        v += [("frame-overlap", d) for c, d in vv if c == "overlap"]
    r["v"] = common.dedup(v)
    L = obs["gran"]
    r["nt"] = any(abs(q - L) > 1e-6 for res, slots in obs["ledger"].get(0, {}).items() for s, lst in slots.items() for _t, q in lst) or nms > 0
    r["x"] = {"tasks_with_work_checked": nwork, "milestones_checked": nms}
    return r


def payload(item, clause, detail):
    from mc import render
    spec = to_spec(item)
    return {"item": item, "detail": detail, "spec": spec, "tjp": render.render(spec)}


def sample(item):
    from mc import render
    return {"item": item, "tjp": render.render(to_spec(item))}


def universe(tier):
    yield from chains(tier)
    yield from c03.universe(tier)
    yield from c03.team_blockers(tier)
    from mc.props import c01
    yield from c01.dupids(tier)
    yield from mixdir(tier)
    yield from mixend(tier)


def run(ctx):
    st = Stats()
    explore(ctx, universe(ctx.tier), "mc.props.c06:evaluate", st, payload=payload, sample_of=sample, trait=trait)
    from mc.props import wide
    wide.sweep(ctx, st, "C06")
    common.vacuity_guard(ctx, st)
    cov = st.coverage(
        "complete product universes: C03's (every effort minute x efficiency x resolution x direction x contention, teams, alternatives, "
        "C01 projects) + all 3-chains of sub-slot tasks + milestones behind mid-slot predecessors with gaps / on-start. states = distinct "
        "schedule observations; transitions = placements + bookings; non-trivial = a task starts or ends inside a slot, or a milestone bound was checked")
    return ctx.finish(cov, ASSUME + [wide.NOTE])


def replay(path):
    return common.generic_replay(path, evaluate)
