#!/usr/bin/env python3
"""Write seeded/<id>/meta.json from eval.json.   tools/seed_meta.py <id> <PROP> "<needs>" "<origin>" "<history>" """
import json, sys
sid, prop, needs, origin, hist = sys.argv[1:6]
d = f"/verif/seeded/{sid}"
e = json.load(open(d + "/eval.json"))
meta = {"seed": sid, "breaks_property": prop, "needs_to_manifest": needs, "origin": origin,
        "confirmed": {"repo_tests_with_patch": e["tests_with_patch"], "demo_exit_with_patch": e["demo_with_patch_exit"], "demo_exit_without_patch": e["demo_without_patch_exit"]},
        "ran": [f"tools/seed_eval.py {sid} <dir> {' '.join(e['props'])} (scratch worktree of /repo {e['repo_head']}, patch applied, repo test suite, demo, ./check <prop> --tier {e['tier']} with VERIF_REPO=<worktree>, patch reverted, demo)"],
        "detected_by": {p: c["exit"] == 1 for p, c in e["checks"].items()},
        "first_detail": {p: c["detail"] for p, c in e["checks"].items()},
        "history": hist}
json.dump(meta, open(d + "/meta.json", "w"), indent=1)
print(sid, meta["detected_by"])
