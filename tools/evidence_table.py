#!/usr/bin/env python3
"""Print the realised coverage of the last run of every check from evidence/<id>.json (markdown table)."""
import glob, json, os
home = os.path.dirname(os.path.dirname(os.path.abspath(__file__)))
print("| check | tier | evaluations | states | transitions | violations | wall |\n|---|---|---|---|---|---|---|")
for f in sorted(glob.glob(os.path.join(home, "evidence", "C*.json"))):
    e = json.load(open(f))
    c = e.get("coverage", {})
    print(f"| {e.get('property_id', os.path.basename(f)[:3])} | {e.get('tier', '')} | {c.get('evaluations', c.get('traces_validated_against_impl', ''))} | {c.get('states', '')} | "
          f"{c.get('transitions', '')} | {e.get('violations', e.get('result', ''))} | {e.get('wall_s', c.get('wall_s', ''))} |")
