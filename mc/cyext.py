"""Extension-module control for the tree under test.

Three configurations of the three accelerated modules (scoreboard_cy, time_utils_cy,
working_hours_cy):

  rebuilt  - compiled here from the tree's .pyx into /verif/.build/<sha256 of the pyx>/ (default:
             an edited .pyx is what runs, the stale in-tree .so is not)
  tree     - whatever `import scriptplan._cython.<m>` finds in the tree (the in-tree .so, if any)
  blocked  - import fails -> the pure-Python fallbacks run

`install(mode)` must be called before the first import of scriptplan.
"""
import hashlib
import importlib.abc
import importlib.machinery
import importlib.util
import os
import subprocess
import sys
import sysconfig

MODS = ("scoreboard_cy", "time_utils_cy", "working_hours_cy")
VERIF = os.path.dirname(os.path.dirname(os.path.abspath(__file__)))
BUILD = os.path.join(VERIF, ".build")


def repo_root():
    return os.environ.get("VERIF_REPO", "/repo")


def _pyx(mod):
    return os.path.join(repo_root(), "scriptplan", "_cython", mod + ".pyx")


def _so_path(mod):
    with open(_pyx(mod), "rb") as f:
        h = hashlib.sha256(f.read()).hexdigest()[:20]
    return os.path.join(BUILD, f"{mod}-{h}", mod + ".so")


def build(mod, quiet=True):
    """Compile one module from the tree's .pyx (no-op when cached). Returns the .so path."""
    so = _so_path(mod)
    if os.path.exists(so):
        return so
    d = os.path.dirname(so)
    os.makedirs(d, exist_ok=True)
    c = os.path.join(d, mod + ".c")
    tmp = so + f".tmp{os.getpid()}"
    cy = os.path.join(os.path.dirname(sys.executable), "cython")
    inc = sysconfig.get_paths()["include"]
    subprocess.run([cy, "-3", _pyx(mod), "-o", c], check=True, capture_output=quiet)
    subprocess.run(["gcc", "-shared", "-fPIC", "-O1", "-w", "-I", inc, c, "-o", tmp], check=True, capture_output=quiet)
    os.replace(tmp, so)
    return so


def build_all():
    return {m: build(m) for m in MODS}


class _Finder(importlib.abc.MetaPathFinder):
    def __init__(self, mode, paths):
        self.mode = mode
        self.paths = paths

    def find_spec(self, fullname, path, target=None):
        if not fullname.startswith("scriptplan._cython."):
            return None
        mod = fullname.rsplit(".", 1)[1]
        if mod not in MODS:
            return None
        if self.mode == "blocked":
            raise ImportError(f"{fullname} blocked by verification harness")
        loader = importlib.machinery.ExtensionFileLoader(fullname, self.paths[mod])
        return importlib.util.spec_from_file_location(fullname, self.paths[mod], loader=loader)


def install(mode="rebuilt"):
    """Put the tree first on sys.path and route the extension imports."""
    assert "scriptplan" not in sys.modules, "cyext.install() must precede the first scriptplan import"
    root = repo_root()
    if root not in sys.path[:1]:
        sys.path.insert(0, root)
    if mode == "tree":
        return
    paths = build_all() if mode == "rebuilt" else {}
    sys.meta_path.insert(0, _Finder(mode, paths))


def active_flags():
    """(_USE_CYTHON of the three importing modules) - for evidence and sanity checks."""
    import scriptplan.core.project as p
    import scriptplan.core.working_hours as w
    import scriptplan.scheduler.scoreboard as s

    return {"scoreboard": s._USE_CYTHON, "time_utils": p._USE_CYTHON, "working_hours": w._USE_CYTHON}


if __name__ == "__main__":
    print(build_all())
