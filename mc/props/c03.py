"""C03 - a scheduled task receives exactly its effort (DESIGN 4, C03).

Mode A: (1) single tasks and 'predecessor ends mid-slot -> task' pairs for every effort 1..240 min x
efficiencies x resolutions x ASAP/ALAP x contention; (2) teams (one member partly on leave) and
alternatives (primary busy for k slots); (3) the 2-3 task project universe of C01.
"""
from mc import oracles
from mc.props import c01, common
from mc.run import Stats, explore

ASSUME = [
    "project start Monday 2025-01-06 +3w, default calendar, UTC",
    "efforts every minute 1..240 (quick: L in {60,30,15}; thorough adds {20,10,5}); efficiencies {0.5,0.7,0.8,1,1.25,2}",
    "teams have members of equal efficiency (the statement does not say whose efficiency weights team time); each member's booked time x efficiency must equal the effort",
    "tolerance max(1, efficiency) seconds = the one-second rounding of reported times",
]
EFFS = (0.5, 0.7, 0.8, 1.0, 1.25, 2.0)


def singles(tier):
    Ls = (60, 30, 15) if tier == "quick" else (60, 30, 20, 15, 10, 5)
    step = 1
    for L in Ls:
        for eff in EFFS:
            for alap in (False, True):
                for cont in (0, 1, 2):
                    # cont 0: alone; 1: a higher-priority 1.5-slot task first; 2: predecessor ending mid-slot (dependency)
                    if tier == "quick" and cont and eff not in (1.0, 0.7):
                        continue
                    for m in range(1, 241, step):
                        yield {"kind": "single", "L": L, "eff": eff, "alap": alap, "cont": cont, "m": m}


def teams(tier):
    for L in (60, 30):
        for alap in (False, True):
            for m in (10, 20, 30, 45, 60, 90, 100, 150, 240):
                for leave in (None, "2025-01-06-11:00", "2025-01-06-13:00"):
                    for pre in (0, 20, 90):
                        yield {"kind": "team", "L": L, "alap": alap, "m": m, "leave": leave, "pre": pre}
                for lim in ("1h", "2h", "3h", "3.5h"):
                    for where in ("task", "group", "member", "grand", "grand-own", "ctask", "gctask-own", "team3-grand-own", "task-only-r1", "task-only-r2"):
                        yield {"kind": "teamlim", "L": L, "alap": alap, "m": m, "lim": lim, "where": where}
                for k in range(0, 5):
                    for eff2 in (1.0, 0.5):
                        for nalt in (1, 2):
                            yield {"kind": "alt", "L": L, "alap": alap, "m": m, "k": k, "eff2": eff2, "nalt": nalt}


def longsums(tier):
    """many whole slots at a per-slot gain that is not representable in binary: the task fills its last slot EXACTLY, so the running
    float sum of the gains meets the typed effort only up to rounding (a tolerance that is a little too tight books a sliver of
    the next working slot, a little too loose ends a slot early)"""
    for eff, L in ((0.3, 60), (0.6, 60), (0.7, 60), (0.9, 60), (1.1, 60), (1.0, 20), (1.0, 10), (0.7, 20), (1.0, 5)):
        for k in (10, 12, 14, 17, 20, 24, 30, 40):
            for alap in (False, True):
                yield {"kind": "longsum", "eff": eff, "L": L, "k": k, "alap": alap}


def team_blockers(tier):
    """A team task spanning several slots meets a pinned, higher-priority sub-slot task that holds part of a
    later slot on ONE member (either position in the allocate list)."""
    for L in (60, 30):
        for alap in (False, True):
            for m in (90, 150, 165, 240):
                for k in (0, 1, 2, 3):
                    for bm in (20, 30, 45):
                        for bres in ("r1", "r2"):
                            for order in (("r1", "r2"), ("r2", "r1")):
                                for eff in ((1.0,) if tier == "quick" else (1.0, 0.5)):
                                    yield {"kind": "tb", "L": L, "alap": alap, "m": m, "k": k, "bm": bm, "bres": bres, "order": order, "eff": eff}


def tb_spec(it):
    L = it["L"]
    if it["alap"]:
        # backward: the team fills the last day from 17:00 downwards; the blocker ends k slots before 17:00 on the last working day
        from datetime import datetime, timedelta
        end = datetime(2025, 1, 24, 17, 0) - timedelta(minutes=L * it["k"])
        blk = {"id": "blk", "effort": it["bm"], "alloc": [it["bres"]], "prio": 1000, "end": end.strftime("%Y-%m-%d-%H:%M")}
    else:
        from datetime import datetime, timedelta
        st = datetime(2025, 1, 6, 9, 0) + timedelta(minutes=L * it["k"])
        blk = {"id": "blk", "effort": it["bm"], "alloc": [it["bres"]], "prio": 1000, "start": st.strftime("%Y-%m-%d-%H:%M")}
    return {"res_min": L if L != 60 else None, "alap": it["alap"],
            "resources": [{"id": "r1", "eff": it["eff"]}, {"id": "r2", "eff": it["eff"]}],
            "tasks": [blk, {"id": "team", "effort": it["m"], "alloc": list(it["order"])}]}


def to_spec(it):
    k = it["kind"]
    if k in ("hist", "proj"):
        return c01.to_spec(it)
    if k == "tb":
        return tb_spec(it)
    L = it["L"]
    base = {"res_min": L if L != 60 else None, "alap": it["alap"]}
    if k == "single":
        tasks = []
        if it["cont"] == 1:
            tasks.append({"id": "hi", "effort": L * 3 // 2, "alloc": ["r1"], "prio": 900})
        elif it["cont"] == 2:
            tasks.append({"id": "pre", "effort": L * 3 // 2 + 7, "alloc": ["r1"]})
        t = {"id": "x", "effort": it["m"], "alloc": ["r1"]}
        if it["cont"] == 2:
            if it["alap"]:
                t["prec"] = ["pre"]
            else:
                t["deps"] = ["pre"]
        tasks.append(t)
        base.update(resources=[{"id": "r1", "eff": it["eff"]}], tasks=tasks)
    elif k == "longsum":
        from fractions import Fraction
        minutes = Fraction(str(it["eff"])) * it["k"] * it["L"]        # exact effort = k slots at that efficiency
        eff_txt = f"{int(minutes)}min" if minutes.denominator == 1 else f"{float(minutes)}min"
        base.update(resources=[{"id": "r1", "eff": it["eff"]}], tasks=[{"id": "x", "effort": eff_txt, "alloc": ["r1"]}, {"id": "after", "effort": 30, "alloc": ["r1"], "deps": ["x"]}])
    elif k == "teamlim":
        x = {"id": "x", "effort": it["m"], "alloc": ["r1", "r2"]}
        rs = [{"id": "r1"}, {"id": "r2"}]
        if it["where"] == "task":
            x["limits"] = {"dailymax": it["lim"]}
        elif it["where"].startswith("task-only-"):
            # a task limit that names one member of the team: { dailymax 3h { resources r1 } }
            x["limits"] = {"dailymax": (it["lim"], [it["where"][-2:]])}
        elif it["where"] == "group":
            rs = [{"id": "grp", "limits": {"dailymax": it["lim"]}, "children": rs}]
        elif it["where"] == "member":
            rs[1]["limits"] = {"dailymax": it["lim"]}
        elif it["where"] in ("grand", "grand-own", "team3-grand-own"):
            # the binding limit sits two levels above the members; 'own': the group in between declares a (loose) limit itself
            if it["where"] == "team3-grand-own":
                rs.append({"id": "r3"})
                x["alloc"] = ["r1", "r2", "r3"]
            grp = {"id": "grp", "children": rs}
            if it["where"] != "grand":
                grp["limits"] = {"dailymax": "8h"}
            rs = [{"id": "dept", "limits": {"dailymax": it["lim"]}, "children": [grp]}]
        tasks = [x]
        if it["where"] == "ctask":
            tasks = [{"id": "box", "limits": {"dailymax": it["lim"]}, "children": [x]}]
        elif it["where"] == "gctask-own":
            tasks = [{"id": "top", "limits": {"dailymax": it["lim"]}, "children": [{"id": "box", "limits": {"dailymax": "8h"}, "children": [x]}]}]
        base.update(resources=rs, tasks=tasks)
    elif k == "team":
        r2 = {"id": "r2"}
        if it["leave"]:
            r2["leaves"] = [{"k": "booking", "a": it["leave"], "b": "+2h"}]
        tasks = []
        if it["pre"]:
            tasks.append({"id": "pre", "effort": it["pre"], "alloc": ["r1"], "prio": 900})
        tasks.append({"id": "x", "effort": it["m"], "alloc": ["r1", "r2"]})
        base.update(resources=[{"id": "r1"}, r2], tasks=tasks)
    else:  # alt
        tasks = []
        if it["k"]:
            tasks.append({"id": "busy", "effort": L * it["k"], "alloc": ["r1"], "prio": 900})
        tasks.append({"id": "x", "effort": it["m"], "alloc": ["r1"], "alt": ["r2"] if it.get("nalt", 1) == 1 else ["r2", "r3"]})
        base.update(resources=[{"id": "r1"}, {"id": "r2", "eff": it["eff2"]}, {"id": "r3", "eff": it["eff2"]}], tasks=tasks)
    return base


def evaluate(item):
    if isinstance(item, dict) and item.get("kind") == "wide":
        from mc.props import wide
        return wide.eval_c03(item)
    spec = to_spec(item)
    obs = common.run_spec(spec)
    if obs.get("error"):
        return common.errored(item, obs)
    r = common.base_result(item, obs)
    v = []
    for sc in range(obs["nsc"]):
        v += oracles.c03_effort(spec, obs, sc)
    r["v"] = common.dedup(v)
    # non-trivial: some scheduled task with work ends or starts inside a slot, or shares a slot
    L = obs["gran"]
    nt = False
    for res, slots in obs["ledger"].get(0, {}).items():
        for s, lst in slots.items():
            if len(lst) > 1 or any(abs(q - L) > 1e-6 for _t, q in lst):
                nt = True
    r["nt"] = nt
    r["x"] = {"scheduled_tasks_checked": sum(1 for t in obs["tasks"] if t["leaf"] and t["sched"][0])}
    return r


def payload(item, clause, detail):
    from mc import render
    spec = to_spec(item)
    return {"item": item, "detail": detail, "spec": spec, "tjp": render.render(spec)}


def sample(item):
    from mc import render
    return {"item": item, "tjp": render.render(to_spec(item))}


def universe(tier):
    yield from singles(tier)
    yield from teams(tier)
    yield from team_blockers(tier)
    yield from longsums(tier)
    yield from c01.projects(tier)


def run(ctx):
    st = Stats()
    explore(ctx, universe(ctx.tier), "mc.props.c03:evaluate", st, payload=payload, sample_of=sample)
    from mc.props import wide
    wide.sweep(ctx, st, "C03")
    common.vacuity_guard(ctx, st)
    cov = st.coverage(
        "complete product universes: single/pair tasks for every effort minute 1..240 x efficiency x resolution x direction x contention; "
        "teams/alternatives; the 2-3 task project universe of C01. states = distinct schedule observations; transitions = placements + "
        "bookings by the real scheduler; non-trivial = some booked slot is partial or shared")
    return ctx.finish(cov, ASSUME + [wide.NOTE])


def replay(path):
    return common.generic_replay(path, evaluate)
