#!/usr/bin/env python3
"""Regenerate MANIFEST.json from the table below (run after adding a check)."""
import json, os
V = os.path.dirname(os.path.dirname(os.path.abspath(__file__)))
props = [json.loads(l) for l in open(os.path.join(V, "properties.jsonl"))]

# id -> (category, technique, level text, level note)
CHECKS = {}
def chk(pid, cat, technique, text, note, design):
    CHECKS[pid] = dict(cat=cat, technique=technique, text=text, note=note, design=design)

exec(open(os.path.join(V, "tools", "checks_table.py")).read())

checks, na = [], []
for p in props:
    pid = p["id"]
    if pid in CHECKS and os.path.exists(os.path.join(V, "mc", "props", pid.lower() + ".py")):
        c = CHECKS[pid]
        checks.append({
            "property_id": pid,
            "quick_cmd": f"./check {pid} --tier quick",
            "thorough_cmd": f"./check {pid} --tier thorough",
            "evidence_file": f"/verif/evidence/{pid}.json",
            "replay_cmd_template": f"./check {pid} --replay {{path}}",
            "engine": "mc",
            "level_claimed": {"category": c["cat"], "text": c["text"], "design_ref": c["design"]},
            "level_note": c["note"],
            "technique": c["technique"],
        })
    else:
        na.append({"property_id": pid, "reason": "check not built yet in this revision of /verif (design in DESIGN.md section 4); nothing is claimed for it"})
m = {
    "version": 1,
    "setup_cmd": "cd /verif && PYTHONHASHSEED=0 /venv/bin/python -m mc.cyext && PYTHONHASHSEED=0 /venv/bin/python -m pytest -q -p no:cacheprovider tests",
    "hooks": {
        "guard": "SCRIPTPLAN_VERIF",
        "enable": "no in-repo hooks exist: observation is done from /verif by run-time wrappers (observers, audit hooks, import finder for the extension modules); the guard name is reserved",
        "baseline_off_cmd": "cd /repo && /venv/bin/python -m pytest -ra -q -p no:cacheprovider --timeout=900 --continue-on-collection-errors",
        "source_commits": [],
        "add_only": True,
    },
    "engines": [{
        "name": "mc", "path": "/verif/mc",
        "serves_properties": [c["property_id"] for c in checks],
        "kind_free_text": "hand-written explicit-state / bounded-universe explorer that runs the real scriptplan code in 16 forked workers (mc/pool.py, mc/run.py), with reference models under mc/ref and per-property universes + oracles under mc/props",
    }],
    "checks": checks,
    "not_applicable": na,
    "notes": "All verdicts come from exhaustive enumeration of explicitly bounded spaces on the real code; see DESIGN.md. Known findings: known_findings.txt + known/*.keys.gz.",
}
json.dump(m, open(os.path.join(V, "MANIFEST.json"), "w"), indent=1)
print("checks:", [c["property_id"] for c in checks], "not_applicable:", len(na))
