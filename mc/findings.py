"""Known findings: /verif/known_findings.txt + explicit key lists under /verif/known/.

Line formats (one finding per line, '#' comments allowed):

  open: property=C02 id=D19 clause=straddle keys=known/C02-D19.keys.gz :: <what fails>
  fixed: property=C05 <commit> <what failed>

An open finding is identified by the *explicit list* of (clause, input key) pairs that fail for that
reason (input key = SHA-1 of the canonical input; enumeration is deterministic, so the failing set is
a function of the tree). A failing pair in a list is reported once per finding as KNOWN-FINDING; a
failing pair in no list is a VIOLATION. `fixed:` lines suppress nothing. Lists are only written by
`./check <id> --learn <finding>` (a developer command), never by a check run.
"""
import gzip
import os

VERIF = os.path.dirname(os.path.dirname(os.path.abspath(__file__)))
FILE = os.path.join(VERIF, "known_findings.txt")


class Finding:
    def __init__(self, prop, fid, clause, keys_path, what):
        self.prop, self.id, self.clause, self.keys_path, self.what = prop, fid, clause, keys_path, what
        self.keys = set()
        p = os.path.join(VERIF, keys_path)
        if os.path.exists(p):
            with gzip.open(p, "rt") as f:
                self.keys = {line.strip() for line in f if line.strip()}
        self.hits = 0

    def save(self):
        p = os.path.join(VERIF, self.keys_path)
        os.makedirs(os.path.dirname(p), exist_ok=True)
        with gzip.GzipFile(p, "wb", mtime=0) as f:
            f.write(("\n".join(sorted(self.keys)) + "\n").encode())


def load(prop=None):
    out = []
    if not os.path.exists(FILE):
        return out
    with open(FILE) as f:
        for line in f:
            line = line.strip()
            if not line.startswith("open:"):
                continue
            head, _, what = line[5:].partition("::")
            kv = dict(tok.split("=", 1) for tok in head.split() if "=" in tok)
            if prop and kv.get("property") != prop:
                continue
            out.append(Finding(kv["property"], kv["id"], kv["clause"], kv["keys"], what.strip()))
    return out


def fixed_lines(prop=None):
    out = []
    if os.path.exists(FILE):
        with open(FILE) as f:
            for line in f:
                if line.startswith("fixed:") and (prop is None or f"property={prop} " in line):
                    out.append(line.strip())
    return out


def match(findings, clause, key):
    for f in findings:
        if f.clause == clause and key in f.keys:
            f.hits += 1
            return f
    return None
