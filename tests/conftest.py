import os, sys
sys.path.insert(0, os.path.dirname(os.path.dirname(os.path.abspath(__file__))))
