#!/usr/bin/env python3
"""Prepare scratch worktrees + prompts for a wave of seeded-change sub-agents.

  tools/seed_wave.py <hint-file> <extra-file|-> C01 C02 ...

For each property: `git -C /repo worktree add --detach /tmp/mut_<P> HEAD`, OUT/PROPERTY.txt (the property text only)
and OUT/PROMPT.txt (tools/seed_prompt_template.txt with @P@, @HINT@, @EXTRA@ filled in)."""
import json
import os
import subprocess
import sys

HOME = os.path.dirname(os.path.dirname(os.path.abspath(__file__)))
props = {json.loads(l)["id"]: json.loads(l) for l in open(os.path.join(HOME, "properties.jsonl"))}
hint = open(sys.argv[1]).read().strip()
extra = "" if sys.argv[2] == "-" else open(sys.argv[2]).read()
tmpl = open(os.path.join(HOME, "tools/seed_prompt_template.txt")).read()
for p in sys.argv[3:]:
    d = f"/tmp/mut_{p}"
    subprocess.run(["git", "-C", "/repo", "worktree", "remove", "--force", d], capture_output=True)
    subprocess.run(["git", "-C", "/repo", "worktree", "add", "--detach", d, "HEAD", "-q"], check=True)
    os.makedirs(d + "/OUT", exist_ok=True)
    pr = props[p]
    text = f"{pr['id']}: {pr['title']}\n\n{pr['statement']}\n\nQuantifier: {pr['quantifier']['text']}"
    open(d + "/OUT/PROPERTY.txt", "w").write(text + "\n")
    open(d + "/OUT/PROMPT.txt", "w").write(tmpl.replace("@P@", p).replace("@HINT@", hint).replace("@EXTRA@", extra))
    print(d)
