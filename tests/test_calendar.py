from datetime import datetime
from mc.ref.calendar import RefCalendar, week_table, interval


def cal(**r):
    return RefCalendar({"start": "2025-01-06", "resources": [dict(id="r", **r)]})


def test_default_calendar():
    c = cal()
    assert c.working_at("r", datetime(2025, 1, 6, 9, 0))
    assert not c.working_at("r", datetime(2025, 1, 6, 8, 59))
    assert not c.working_at("r", datetime(2025, 1, 6, 17, 0))
    assert not c.working_at("r", datetime(2025, 1, 11, 10, 0))  # Saturday


def test_cross_midnight_belongs_to_start_day():
    c = cal(hours=[("mon, wed", ["22:00 - 2:00"])])
    assert c.working_at("r", datetime(2025, 1, 6, 23, 0))       # Mon 23:00
    assert c.working_at("r", datetime(2025, 1, 7, 1, 59))       # Tue 01:59 (tail of Monday's shift)
    assert not c.working_at("r", datetime(2025, 1, 6, 1, 0))    # Mon 01:00: no Sunday shift
    assert not c.working_at("r", datetime(2025, 1, 7, 2, 0))
    assert c.working_at("r", datetime(2025, 1, 9, 0, 30))       # Thu 00:30, tail of Wednesday


def test_timezone_and_dst():
    c = cal(hours=[("mon - fri", ["9:00 - 17:00"])], tz="America/New_York")
    assert c.working_at("r", datetime(2025, 1, 6, 14, 0))       # 09:00 EST
    assert not c.working_at("r", datetime(2025, 1, 6, 13, 59))
    c2 = RefCalendar({"start": "2025-03-03", "resources": [dict(id="r", hours=[("mon - fri", ["9:00 - 17:00"])], tz="America/New_York")]})
    assert c2.working_at("r", datetime(2025, 3, 10, 13, 0))     # after DST start: 09:00 EDT = 13:00 UTC
    assert not c2.working_at("r", datetime(2025, 3, 7, 13, 0))  # before: 08:00 EST


def test_leaves_single_day_and_range():
    c = cal(leaves=[{"k": "leaves", "type": "annual", "a": "2025-01-07"}, {"k": "vacation", "a": "2025-01-08", "b": "2025-01-10"},
                    {"k": "booking", "a": "2025-01-10-09:00", "b": "+6h"}])
    assert not c.working_at("r", datetime(2025, 1, 7, 10))
    assert not c.working_at("r", datetime(2025, 1, 8, 10))
    assert not c.working_at("r", datetime(2025, 1, 9, 16))
    assert not c.working_at("r", datetime(2025, 1, 10, 14, 59))
    assert c.working_at("r", datetime(2025, 1, 10, 15, 0))


def test_working_seconds_straddle():
    c = cal(hours=[("mon - fri", ["8:15 - 11:45"])])
    assert c.working_seconds("r", 8) == 45 * 60
    assert c.working_seconds("r", 11) == 45 * 60
    assert c.working_seconds("r", 9) == 3600
    assert c.working_seconds("r", 12) == 0


def test_group_inheritance_and_project_hours():
    c = RefCalendar({"start": "2025-01-06", "pwh": [("mon - fri", ["8:00 - 12:00"])],
                     "resources": [dict(id="g", hours=[("sat", ["10:00 - 12:00"])], children=[dict(id="m")]), dict(id="x")]})
    assert c.working_at("m", datetime(2025, 1, 11, 10))
    assert not c.working_at("m", datetime(2025, 1, 6, 10))
    assert c.working_at("x", datetime(2025, 1, 6, 8)) and not c.working_at("x", datetime(2025, 1, 6, 13))
