"""C17 - slot/time conversion and interval scanning obey their algebra (DESIGN 4, C17).

Exhaustive grids on the real functions, once with the extensions rebuilt from the tree's .pyx and once
with the pure-Python fallbacks: Scoreboard.idxToDate/dateToIdx (both clamp flags), Project.idxToDate /
dateToIdx / scoreboardSize, Scoreboard.collectIntervals against the brute-force RefScan.
"""
from mc import grids
from mc.run import Stats

ASSUME = [
    "windows start 2025-01-06 (+00:00 or +08:13), spans 180 min / 1 d 37 min / 2 d; resolutions listed in coverage; plus windows across the daylight-saving switch of the PROCESS time zone (TZ=Europe/Berlin 2025-03-29, TZ=America/New_York 2025-11-01): the environment must not matter",
    "every whole-minute resolution 1..120 min is covered by the slot-start sweep (3-day window: index(time(i)) = i and +-1 s); instants are whole seconds; a 90-year window is probed at ~2000 indices and around 2^31 seconds (the far grid)",
    "for instants outside [start, end] only 'reject or clamp' is demanded (truncation toward zero in (start-L, start) is tolerated)",
    "collectIntervals reference: maximal runs over the table without its final sentinel slot, >= minimum, clipped to [s,e), empty dropped",
]


def ci_configs(tier):
    ns = range(1, 10) if tier == "quick" else range(1, 12)
    Ls = [60] if tier == "quick" else [60, 15]
    return [(n, L) for n in ns for L in Ls]


def run(ctx):
    st = Stats()
    per_mode = {}
    for mode in ("rebuilt", "blocked"):
        pool = ctx.pool(mode)
        sbc = grids.sb_configs(ctx.tier)
        res = pool.map("mc.grids:sb_grid", sbc, timeout=300, chunk=1)
        res += pool.map("mc.grids:ci_grid", ci_configs(ctx.tier), timeout=900, chunk=1)
        res += pool.map("mc.grids:rt_grid", [(a, min(a + 7, 120)) for a in range(1, 121, 8)], timeout=900, chunk=1)
        res += pool.map("mc.grids:far_grid", [60, 15] if ctx.tier == "quick" else [60, 30, 15, 7], timeout=900, chunk=1)
        from mc.pool import die_on_harness_errors
        die_on_harness_errors(res)
        per_mode[mode] = res
        for r in res:
            st.evaluations += 1
            if "__timeout__" in r or "__memory__" in r:
                ctx.violation("hang", f"{mode}", {"detail": "grid evaluation exceeded its limit", "mode": mode})
                continue
            st.transitions += r["calls"]
            st.states.add((mode, r["digest"]))
            st.nontrivial.add((mode, repr(r["cfg"])))
            for c, n in r["viol_counts"].items():
                st.by_clause[c] = st.by_clause.get(c, 0) + n
            seen = set()
            for c, d in r["viol"]:
                if c in seen:
                    continue
                seen.add(c)
                ctx.violation(c, f"{mode}:{r['cfg']}", {"detail": d, "mode": mode, "cfg": r["cfg"],
                                                       "count_in_cfg": r["viol_counts"][c]})
    st.samples = [{"mode": "rebuilt", "cfg (L_min,(h,m) offset,span_min)": grids.sb_configs(ctx.tier)[0]},
                  {"mode": "blocked", "collectIntervals cfg (pattern length, L_min)": ci_configs(ctx.tier)[-1]}]
    cov = st.coverage(
        "one evaluation = one configuration (resolution x start offset x span, or pattern length x resolution) evaluated on its "
        "complete argument grid in one implementation; transitions = calls of the real functions; states = distinct "
        "(implementation, digest of all returned values); every configuration is non-trivial (distinct configurations counted)",
        function_calls=st.transitions,
        resolutions_min=sorted({c[0] for c in grids.sb_configs(ctx.tier)}),
        pattern_lengths=[c[0] for c in ci_configs(ctx.tier)],
        implementations=["rebuilt-from-pyx", "pure-python"],
    )
    return ctx.finish(cov, ASSUME)


def replay(path):
    import json
    from mc import cyext
    p = json.load(open(path))
    cyext.install(p.get("mode", "rebuilt"))
    cfg = p["cfg"]
    if isinstance(cfg, (int, float)):
        r = grids.far_grid(cfg)
    elif len(cfg) == 2:
        r = grids.rt_grid(tuple(cfg))
    elif len(cfg) in (3, 4) and isinstance(cfg[1], (list, tuple)):
        r = grids.sb_grid((cfg[0], tuple(cfg[1]), cfg[2]) + ((tuple(cfg[3]),) if len(cfg) == 4 else ()))
    else:
        r = grids.ci_grid(tuple(cfg))
    print(r["viol_counts"], r["viol"][:4])
    return 1 if r["viol"] else 0
