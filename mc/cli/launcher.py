"""Run the real `plan` entry point under a controller that owns its environment answers.

    python launcher.py <ctl_out_fd> <ctl_in_fd> <repo_root> <ext_mode> -- <plan args...>

Before anything of scriptplan is imported this process
  * installs a sys.addaudithook that sees every file-system step with its path (open, os.mkdir, os.remove,
    os.rmdir, os.scandir/listdir, shutil.rmtree, tempfile.mkstemp/mkdtemp, os.rename, os.chdir) and, for steps on
    *application paths* (below the sandbox cwd, below $TMPDIR, or the input file), reports the step to the
    controller over a pipe and blocks until the controller answers: {"act": "go"} or {"act": "fail",
    "errno": n} (the hook then raises OSError(n) and the real call never happens);
  * wraps os.scandir so that the controller decides the order in which directory entries are listed
    ({"act": "go", "order": [...]});
  * wraps sys.stdout so that the controller can make a write fail with EPIPE;
  * pins tempfile's candidate-name sequence and secrets.token_hex to deterministic sequences (every process
    gets the SAME sequence, so concurrent processes collide on candidate names on purpose);
  * marks cleanup sections (shutil.rmtree, Path.unlink, os.remove called by the application): steps inside are
    reported with "cleanup": true (they are scheduling points but never fault points).
Nothing in the repository is modified.
"""
import json
import os
import sys


def main():
    ctl_out, ctl_in, repo, mode = int(sys.argv[1]), int(sys.argv[2]), sys.argv[3], sys.argv[4]
    args = sys.argv[sys.argv.index("--") + 1:]
    verif = os.path.dirname(os.path.dirname(os.path.dirname(os.path.abspath(__file__))))
    sys.path.insert(0, verif)
    os.environ["VERIF_REPO"] = repo
    from mc import cyext

    cyext.install(mode)

    cwd = os.path.realpath(os.getcwd())
    tmpdir = os.path.realpath(os.environ.get("TMPDIR", "/tmp"))
    tmp_raw = os.path.abspath(os.environ.get("TMPDIR", "/tmp"))   # as spelled (it may be reached through a symbolic link)
    extra = [os.path.realpath(a) for a in args if not a.startswith("-") and os.path.exists(a)]
    out = os.fdopen(ctl_out, "w", buffering=1)
    inp = os.fdopen(ctl_in, "r", buffering=1)
    state = {"k": 0, "cleanup": 0, "busy": False, "on": False}

    def norm(p):
        try:
            if isinstance(p, int):
                p = os.readlink(f"/proc/self/fd/{p}")
            p = os.fspath(p)
            if isinstance(p, bytes):
                p = p.decode("utf-8", "replace")
            if not os.path.isabs(p):
                p = os.path.join(os.getcwd(), p)
            return os.path.normpath(p)
        except Exception:
            return None

    def app_path(p):
        if p is None:
            return False
        if "site-packages" in p or "__pycache__" in p or p.startswith(("/proc", "/usr", "/etc", "/sys", "/dev")):
            return False
        if p.startswith(repo) or p.startswith(verif):
            return False
        return p == cwd or p.startswith(cwd + os.sep) or p == tmpdir or p.startswith(tmpdir + os.sep) or p == tmp_raw or p.startswith(tmp_raw + os.sep) or p in extra

    def ask(ev, path, **kw):
        """Report an interception point and wait for the controller's answer."""
        state["k"] += 1
        msg = {"k": state["k"], "ev": ev, "path": path, "cleanup": state["cleanup"] > 0}
        msg.update(kw)
        out.write(json.dumps(msg) + "\n")
        out.flush()
        line = inp.readline()
        if not line:
            os._exit(97)  # controller went away
        return json.loads(line)

    def hook(event, a):
        if not state["on"] or state["busy"]:
            return
        path = None
        ev = event
        if event == "open":
            path = norm(a[0])
            mode_s, flags = a[1], a[2] or 0
            writing = bool(flags & (os.O_WRONLY | os.O_RDWR | os.O_CREAT | os.O_APPEND | os.O_TRUNC)) or (mode_s and any(c in mode_s for c in "wax+"))
            ev = "open-w" if writing else "open-r"
        elif event in ("os.mkdir", "os.remove", "os.rmdir", "os.scandir", "os.listdir", "os.chdir", "shutil.rmtree"):
            path = norm(a[0]) if a and a[0] is not None else cwd
            if event in ("os.remove", "os.rmdir", "os.mkdir") and len(a) > 1 and isinstance(a[-1], int) and a[-1] >= 0 and not os.path.isabs(os.fspath(a[0])):
                base = norm(a[-1])
                path = os.path.normpath(os.path.join(base, os.fspath(a[0]))) if base else path
        elif event == "os.rename":
            path = norm(a[0])
        elif event in ("tempfile.mkstemp", "tempfile.mkdtemp"):
            path = norm(a[0])
        else:
            return
        if not app_path(path):
            return
        if event == "os.scandir" and state.get("in_scandir"):
            return  # reported by the wrapper (which also carries the ordering decision)
        state["busy"] = True
        try:
            ans = ask(ev, path)
        finally:
            state["busy"] = False
        if ans.get("act") == "fail":
            raise OSError(ans["errno"], os.strerror(ans["errno"]), path)

    sys.addaudithook(hook)

    # deterministic names --------------------------------------------------------------------------------------
    import secrets
    import tempfile

    class Names:
        def __init__(self):
            self.c = 0

        def __iter__(self):
            return self

        def __next__(self):
            self.c += 1
            return f"n{self.c - 1:03d}"

    tempfile._name_sequence = Names()
    tempfile.tempdir = tmp_raw  # the spelling the process was given; skip tempfile's own writability probe (random names; not an application step)
    tok = {"c": 0}

    def token_hex(nbytes=None):
        tok["c"] += 1
        return f"{tok['c']:0{2 * (nbytes or 32)}x}"

    secrets.token_hex = token_hex

    # listing order --------------------------------------------------------------------------------------------
    real_scandir = os.scandir

    class Listing:
        def __init__(self, entries):
            self.entries = entries

        def __iter__(self):
            return iter(self.entries)

        def __next__(self):
            raise StopIteration

        def __enter__(self):
            return self

        def __exit__(self, *a):
            return False

        def close(self):
            pass

    def scandir(path="."):
        p = norm(path)
        if not state["on"] or state["busy"] or not app_path(p):
            return real_scandir(path)
        state["in_scandir"] = True
        try:
            with real_scandir(path) as it:
                entries = sorted(it, key=lambda e: e.name)
        finally:
            state["in_scandir"] = False
        state["busy"] = True
        try:
            ans = ask("scandir", p, names=[e.name for e in entries])
        finally:
            state["busy"] = False
        if ans.get("act") == "fail":
            raise OSError(ans["errno"], os.strerror(ans["errno"]), p)
        order = ans.get("order")
        if order:
            entries = [entries[i] for i in order]
        return Listing(entries)

    os.scandir = scandir

    # cleanup sections -----------------------------------------------------------------------------------------
    import pathlib
    import shutil

    def cleanup_wrap(fn):
        def w(*a, **kw):
            state["cleanup"] += 1
            try:
                return fn(*a, **kw)
            finally:
                state["cleanup"] -= 1
        return w

    shutil.rmtree = cleanup_wrap(shutil.rmtree)
    pathlib.Path.unlink = cleanup_wrap(pathlib.Path.unlink)

    # stdout ---------------------------------------------------------------------------------------------------
    class Out:
        """text layer of stdout; .buffer is wrapped the same way (the application may write bytes)"""

        def __init__(self, real, is_buffer=False):
            self._real = real
            self._buffer = None if is_buffer or not hasattr(real, "buffer") else Out(real.buffer, True)

        def write(self, s):
            if state["on"] and not state["busy"] and s:
                state["busy"] = True
                try:
                    ans = ask("stdout-write", None, nbytes=len(s))
                finally:
                    state["busy"] = False
                if ans.get("act") == "fail":
                    import errno as _errno
                    import signal as _signal
                    if ans["errno"] == _errno.EPIPE and _signal.getsignal(_signal.SIGPIPE) == _signal.SIG_DFL:
                        # with the default disposition the kernel does not return EPIPE: it kills the writer on the spot
                        os.kill(os.getpid(), _signal.SIGPIPE)
                    raise BrokenPipeError(ans["errno"], os.strerror(ans["errno"]))
            return self._real.write(s)

        @property
        def buffer(self):
            if self._buffer is None:
                raise AttributeError("buffer")
            return self._buffer

        def __getattr__(self, n):
            return getattr(self._real, n)

    sys.stdout = Out(sys.stdout)

    from scriptplan.cli import plan

    sys.argv = ["plan"] + args
    state["on"] = True
    code = 0
    try:
        plan.main()
    except SystemExit as e:
        code = e.code if isinstance(e.code, int) else (0 if e.code is None else 1)
    except BaseException as e:  # noqa  (an exception escaping main() is an observation)
        sys.stderr.write(f"LAUNCHER: {type(e).__name__} escaped plan.main(): {e}\n")
        code = 70
    state["on"] = False
    try:
        sys.stdout.flush()
    except Exception:
        pass
    out.write(json.dumps({"k": 0, "ev": "exit", "code": code}) + "\n")
    out.flush()
    os._exit(code)


if __name__ == "__main__":
    main()
