"""C02 - work is booked only inside the resource's working time (DESIGN 4, C02).

'Sweeper' projects: one task with more effort than the calendar offers early on, so the scheduler books
every slot it believes available; the whole implementation calendar of the window is compared with
RefCalendar (every ledger entry must fit into the working part of its slot).
"""
from mc import oracles
from mc.props import common
from mc.ref.calendar import RefCalendar
from mc.run import Stats, explore

ASSUME = [
    "project clock is UTC; zoned resources carry own / shift / inherited hours (default and project-level hours are on the project clock)",
    "windows: 2025-01-06, 2025-03-03, 2025-09-29, each ~39 days (horizon extension by the scheduler included), covering the 2025 DST changes of US, EU and Lord Howe; thorough: every IANA zone around each of its 2025 transitions",
    "a day interval whose end is not after its start crosses midnight and belongs to the day it starts on (TaskJuggler rule; the repository's own test helper add_working_hours_night encodes it)",
    "leave intervals a - b are [a, b); a single date is the 24 h starting at it",
    "clause `outside`: the slot holds no working time at all; clause `straddle`: more is booked than the working part of a slot cut by a working-time boundary",
]
HOURS = {
    "day": ["9:00 - 17:00"],
    "split": ["8:15 - 11:45", "13:15 - 16:30"],
    "night": ["22:00 - 6:00"],
    "eve": ["18:00 - 2:00"],
    "mid": ["23:30 - 0:30"],
    "late": ["18:00 - 0:00"],     # ends exactly ON midnight (nothing belongs to the following day)
    "all": ["0:00 - 24:00"],
}
OTHER_HOURS = [("mon - sun", ["13:00 - 15:00"])]
DAYS = ["mon - fri", "mon, wed, fri", "sat, sun", "fri - mon", "mon - sun", "tue"]
ZONES_Q = [None, "America/New_York", "Europe/London", "Asia/Kolkata", "Australia/Lord_Howe", "Pacific/Kiritimati", "Pacific/Pago_Pago"]
STARTS = ["2025-01-06", "2025-03-03", "2025-09-29"]
def _multi_layouts():
    """three separate days off of one kind, the statements written in every order (the customary order is chronological)"""
    import itertools

    days = [("D1", None), ("D3", None), ("D8", "D9")]
    out = {}
    for perm in itertools.permutations(range(3)):
        tag = "".join(str(i) for i in perm)
        out[f"pvac3-{tag}"] = {"vac": [days[i] for i in perm]}
        out[f"gleave3-{tag}"] = {"gl": [("holiday",) + days[i] for i in perm]}
        out[f"rleave3-{tag}"] = {"res": [{"k": "leaves", "type": "annual", "a": days[i][0], "b": days[i][1]} for i in perm]}
        out[f"rvac3-{tag}"] = {"res": [{"k": "vacation", "a": days[i][0], "b": days[i][1]} for i in perm]}
    return out


LEAVES = {
    "none": {},
    "rleave1": {"res": [{"k": "leaves", "type": "annual", "a": "D1"}]},
    "rleaveR": {"res": [{"k": "leaves", "type": "sick", "a": "D1", "b": "D3"}]},
    "rvac1": {"res": [{"k": "vacation", "a": "D2"}]},
    "rvacR": {"res": [{"k": "vacation", "a": "D1-12:00", "b": "D2-12:00"}]},
    "pvac1": {"vac": [("D1", None)]},
    "pvacR": {"vac": [("D2", "D4")]},
    "pleave": {"gl": [("holiday", "D3", None)]},
    "booking": {"res": [{"k": "booking", "a": "D1-09:00", "b": "+6h"}]},
    # time off that begins on a slot boundary and ENDS inside a slot (the slot it ends in starts inside the leave)
    "bookmid": {"res": [{"k": "booking", "a": "D1-09:00", "b": "+90min"}]},
    "rleavemid": {"res": [{"k": "leaves", "type": "sick", "a": "D1-13:00", "b": "D1-14:40"}]},
    "pvacmid": {"vac": [("D2-09:00", "D2-10:20")]},
    **_multi_layouts(),
    # days off INSIDE other days off of the same kind (the enclosing one goes on after the inner one ended), and touching ones
    "pvacnest": {"vac": [("D1", "D9"), ("D2", None), ("D3", "D4"), ("D9", None)]},
    "gleavenest": {"gl": [("holiday", "D1", "D9"), ("holiday", "D2", None), ("holiday", "D3", "D4")]},
    "rleavenest": {"res": [{"k": "leaves", "type": "annual", "a": "D1", "b": "D9"}, {"k": "leaves", "type": "sick", "a": "D2"},
                           {"k": "vacation", "a": "D3", "b": "D4"}]},
    # days off that begin / end exactly on the first instant of a slot INSIDE the working day
    "pvachour": {"vac": [("D1", "D1-13:00"), ("D2-13:00", "D3")]},
    "gleavehour": {"gl": [("holiday", "D1", "D1-13:00"), ("holiday", "D2-13:00", "D3")]},
    "rleavehour": {"res": [{"k": "leaves", "type": "annual", "a": "D1", "b": "D1-13:00"}, {"k": "vacation", "a": "D2-13:00", "b": "D3"}]},
    # a day off stated on the resource GROUP next to days off the member states itself (both apply; only with a group attachment)
    "grp+own": {"grp": [{"k": "leaves", "type": "annual", "a": "D1"}, {"k": "vacation", "a": "D8", "b": "D9"}], "res": [{"k": "leaves", "type": "sick", "a": "D3"}]},
    "span-start": {"res": [{"k": "leaves", "type": "annual", "a": "B5", "b": "D2"}]},      # begins 5 days before the project start
    "pspan-start": {"gl": [("holiday", "B3", "D1")]},
}


def _day(start, n, suffix=""):
    from datetime import datetime, timedelta

    d = datetime.strptime(start, "%Y-%m-%d") + timedelta(days=n)
    return d.strftime("%Y-%m-%d") + suffix


def _subst(start, s):
    if s is None:
        return None
    if s.startswith("B"):
        return _day(start, -int(s[1]), s[2:])
    for n in (1, 2, 3, 4, 8, 9):
        tag = f"D{n}"
        if s.startswith(tag):
            return _day(start, n, s[len(tag):])
    return s


def universe(tier):
    Ls = (60, 30, 15)
    # A: calendars x zones x attachment (no leaves, ASAP)
    for hk in HOURS:
        for days in DAYS:
            for att in ("own", "shift", "inherit", "inherit-shift", "inherit-hours"):
                for z in ZONES_Q:
                    for L in (Ls if tier == "thorough" or z in (None, "America/New_York", "Asia/Kolkata") else (60,)):
                        for start in (STARTS if (z and (tier == "thorough" or hk in ("day", "night"))) else STARTS[:1]):
                            it = {"hk": hk, "days": days, "att": att, "z": z, "L": L, "start": start, "alap": False, "lv": "none"}
                            if att in ("inherit-shift", "inherit-hours") and misaligned(it):
                                continue   # slot-aligned hours and zone offsets only (the misaligned class is the open finding D19)
                            yield it
    # B: project-level hours and the default calendar
    for L in Ls:
        for alap in (False, True):
            yield {"hk": None, "days": None, "att": "none", "z": None, "L": L, "start": STARTS[0], "alap": alap, "lv": "none"}
            for hk in HOURS:
                for days in DAYS:
                    yield {"hk": hk, "days": days, "att": "project", "z": None, "L": L, "start": STARTS[0], "alap": alap, "lv": "none"}
    # C: ALAP over calendars
    for hk in HOURS:
        for days in DAYS:
            for z in (None, "America/New_York"):
                yield {"hk": hk, "days": days, "att": "own", "z": z, "L": 60, "start": STARTS[1], "alap": True, "lv": "none"}
    # D: leave layouts
    for lv in LEAVES:
        if lv == "none":
            continue
        for hk, days, att in (("day", "mon - fri", "own"), ("night", "mon - fri", "own"), (None, None, "none"), ("all", "mon - sun", "shift"),
                              ("day", "mon - fri", "inherit"), ("night", "mon - fri", "inherit-shift")):
            if ("grp" in LEAVES[lv]) != att.startswith("inherit") and "grp" in LEAVES[lv]:
                continue
            for z in ((None, "America/New_York") if att == "own" else (None,)):
                for L in (60, 30):
                    for alap in (False, True):
                        yield {"hk": hk, "days": days, "att": att, "z": z, "L": L, "start": STARTS[0], "alap": alap, "lv": lv}
    if tier == "thorough":
        yield from all_zones()


def all_zones():
    import zoneinfo
    from datetime import datetime, timedelta, timezone

    for z in sorted(zoneinfo.available_timezones()):
        if z.startswith(("Etc/", "SystemV/")) or "/" not in z:
            continue
        tz = zoneinfo.ZoneInfo(z)
        # transitions in 2025: scan days for an offset change
        prev = None
        starts = []
        d = datetime(2025, 1, 1, tzinfo=timezone.utc)
        while d.year == 2025:
            off = d.astimezone(tz).utcoffset()
            if prev is not None and off != prev:
                s = (d - timedelta(days=12))
                s -= timedelta(days=s.weekday())
                starts.append(s.strftime("%Y-%m-%d"))
            prev = off
            d += timedelta(days=1)
        for start in (starts or ["2025-01-06"])[:3]:
            for hk in ("day", "night"):
                yield {"hk": hk, "days": "mon - fri", "att": "own", "z": z, "L": 60, "start": start, "alap": False, "lv": "none"}


def spelling_items():
    """the zone written in single quotes; the shift declared after the resource that refers to it"""
    for hk in ("day", "night", "eve"):     # slot-aligned hours and zone offsets only (the misaligned class is the open finding D19)
        for z in ("America/New_York", "Asia/Tokyo", "Europe/London"):
            for att in ("own", "shift", "inherit"):
                yield {"hk": hk, "days": "mon - fri", "att": att, "z": z, "L": 60, "start": STARTS[0], "alap": False, "lv": "none", "q": "single"}
        for z in (None, "America/New_York"):
            for alap in (False, True):
                yield {"hk": hk, "days": "mon - sun", "att": "shift-late", "z": z, "L": 60, "start": STARTS[0], "alap": alap, "lv": "none"}


def boundleave_items():
    """a dependency bound that lies INSIDE the first slot of a day off (the task enters that slot 'partly used'): every kind of
    time off x resolution x own / default hours"""
    for kind in ("rleave", "rvac", "booking", "pvac", "gleave"):
        for L in (60, 30):
            for own in (False, True):
                for eff_a in (450, 440):   # a ends 16:30 / 16:20; + 17 h gap = 09:30 / 09:20 next morning
                    yield {"kind": "bl", "off": kind, "L": L, "own": own, "ea": eff_a}


def boundleave_spec(it):
    r1 = {"id": "r1"}
    if it["own"]:
        r1["hours"] = [("mon - fri", ["9:00 - 17:00"])]
    spec = {"start": "2025-01-06", "dur": "2w", "res_min": it["L"] if it["L"] != 60 else None, "resources": [{"id": "r0"}, r1],
            "tasks": [{"id": "a", "effort": it["ea"], "alloc": ["r0"]}, {"id": "b", "effort": 120, "alloc": ["r1"], "deps": [{"ref": "a", "gap": "17h"}]}]}
    k = it["off"]
    if k == "rleave":
        r1["leaves"] = [{"k": "leaves", "type": "annual", "a": "2025-01-07"}]
    elif k == "rvac":
        r1["leaves"] = [{"k": "vacation", "a": "2025-01-07"}]
    elif k == "booking":
        r1["leaves"] = [{"k": "booking", "a": "2025-01-07-09:00", "b": "+8h"}]
    elif k == "pvac":
        spec["vacations"] = [("2025-01-07", None)]
    else:
        spec["gleaves"] = [("holiday", "2025-01-07", None)]
    return spec


def to_spec(it):
    if it.get("kind") == "bl":
        return boundleave_spec(it)
    L, start = it["L"], it["start"]
    spec = {"start": start, "dur": "2w", "res_min": L if L != 60 else None, "alap": it["alap"]}
    hours = [(it["days"], HOURS[it["hk"]])] if it["hk"] else None
    r = {"id": "r1"}
    att = it["att"]
    resources = [r]
    if att == "own":
        r["hours"] = hours
    elif att in ("shift", "shift-late"):
        spec["shifts"] = [{"id": "s1", "hours": hours}]
        r["shift"] = "s1"
        if att == "shift-late":
            spec["shifts_after"] = True   # the shift is declared after the resource that refers to it
    elif att == "inherit":
        resources = [{"id": "grp", "hours": hours, "children": [r]}]
    elif att == "inherit-shift":
        # the group states plain hours, the member overrides them with a shift of its own
        spec["shifts"] = [{"id": "s1", "hours": hours}]
        r["shift"] = "s1"
        resources = [{"id": "grp", "hours": OTHER_HOURS, "children": [r]}]
    elif att == "inherit-hours":
        # the group refers to a shift, the member overrides it with plain hours of its own
        spec["shifts"] = [{"id": "gs", "hours": OTHER_HOURS}]
        r["hours"] = hours
        resources = [{"id": "grp", "shift": "gs", "children": [r]}]
    elif att == "project":
        spec["pwh"] = hours
    if it["z"]:
        (resources[0] if att == "inherit" else r)["tz"] = it["z"]
        if it.get("q") == "single":
            (resources[0] if att == "inherit" else r)["tzq"] = "'"
    lv = LEAVES[it["lv"]]
    if lv.get("res"):
        r["leaves"] = [{**x, "a": _subst(start, x["a"]), "b": _subst(start, x.get("b"))} for x in lv["res"]]
    if lv.get("grp") and resources[0] is not r:
        resources[0]["leaves"] = [{**x, "a": _subst(start, x["a"]), "b": _subst(start, x.get("b"))} for x in lv["grp"]]
    if lv.get("vac"):
        spec["vacations"] = [(_subst(start, a), _subst(start, b)) for a, b in lv["vac"]]
    if lv.get("gl"):
        spec["gleaves"] = [(t, _subst(start, a), _subst(start, b)) for t, a, b in lv["gl"]]
    spec["resources"] = resources
    spec["tasks"] = [{"id": "sweep", "effort": "130h", "alloc": ["r1"]}]
    return spec


def evaluate(item):
    if isinstance(item, dict) and item.get("kind") == "wide":
        from mc.props import wide
        return wide.eval_c02(item)
    spec = to_spec(item)
    obs = common.run_spec(spec)
    if obs.get("error") and item.get("att") == "shift-late" and obs["error"][0] == "parse" and obs["error"][1] == "builtins.ValueError":
        # refusing a reference to a shift that is not declared yet is fine; accepting it and working other hours is not
        return common.errored(item, obs, skip=True)
    if obs.get("error"):
        return common.errored(item, obs)
    r = common.base_result(item, obs)
    cal = RefCalendar(spec)
    v, n = oracles.c02_calendar(spec, obs, 0, cal)
    r["v"] = common.dedup(v)
    r["nt"] = True if item.get("kind") == "bl" else bool(item["z"] or item["lv"] != "none" or (item["hk"] in ("night", "eve", "mid")))
    r["x"] = {"booked_slots_checked": n}
    return r


def misaligned(item):
    """True when hour boundaries or the zone offset do not fall on the slot grid (the class of D19)."""
    from datetime import datetime, timedelta, timezone
    from zoneinfo import ZoneInfo

    L = item["L"]
    if item["hk"]:
        for r in HOURS[item["hk"]]:
            for x in r.split("-"):
                h, m = x.strip().split(":")
                if (int(h) * 60 + int(m)) % L:
                    return True
    if item["z"]:
        tz = ZoneInfo(item["z"])
        d0 = datetime.strptime(item["start"], "%Y-%m-%d").replace(tzinfo=timezone.utc)
        for k in range(0, 45):
            off = (d0 + timedelta(days=k)).astimezone(tz).utcoffset().total_seconds() / 60
            if off % L:
                return True
    return False


def trait(item, clause, detail, fid):
    """Guards --learn: which inputs may be recorded under which finding."""
    if fid == "D19":
        return clause == "straddle" and misaligned(item)
    return False


def payload(item, clause, detail):
    from mc import render
    spec = to_spec(item)
    return {"item": item, "detail": detail, "spec": spec, "tjp": render.render(spec)}


def sample(item):
    from mc import render
    return {"item": item, "tjp": render.render(to_spec(item))}


def run(ctx):
    st = Stats()
    explore(ctx, universe(ctx.tier), "mc.props.c02:evaluate", st, payload=payload, sample_of=sample, trait=trait, timeout=120)
    explore(ctx, spelling_items(), "mc.props.c02:evaluate", st, payload=payload, sample_of=sample, trait=trait, timeout=120)
    explore(ctx, boundleave_items(), "mc.props.c02:evaluate", st, payload=payload, sample_of=sample, trait=trait, timeout=120)
    from mc.props import wide
    wide.sweep(ctx, st, "C02")
    common.vacuity_guard(ctx, st)
    cov = st.coverage(
        "product universes of sweeper projects: (hour sets x day lists x attachment x zone x resolution x window), project-level/default "
        "hours, ALAP, leave layouts; thorough adds every IANA zone around its 2025 transitions. One evaluation compares every booked slot "
        "of a ~39 day window with RefCalendar. states = distinct ledgers; transitions = bookings; non-trivial = zone, leave or midnight-crossing "
        "hours involved")
    return ctx.finish(cov, ASSUME + [wide.NOTE])


def replay(path):
    return common.generic_replay(path, evaluate)
