"""Project spec (plain dict) -> .tjp text, and a canonical hash of a spec.

Spec (everything optional except 'tasks'):
  start 'YYYY-MM-DD[-HH:MM]', dur '3w', res_min int, alap bool, pattrs [raw lines in project block],
  scenarios [(id, [children...])], globals [raw lines after the project block],
  shifts [{id, hours:[(days, [ranges])]}],
  resources [{id, eff, tz, rate, hours:[(days,[ranges])], shift, leaves:[raw], limits:{dailymax:'2h'},
              children:[...]}],
  tasks [{id, effort(min), alloc:[ids], alt:[ids], prio, deps:[{ref,gap,onstart}|str], prec:[refs],
          start, end, milestone, sched, limits:{...}, raw:[lines], scen:[(sid, 'effort 30min')],
          children:[...]}],
  reports [raw text blocks]
"""
import hashlib
import json


def canon(obj):
    return json.dumps(obj, sort_keys=True, separators=(",", ":"), default=str)


def key(obj):
    return hashlib.sha1(canon(obj).encode()).hexdigest()[:16]


_DUP = [False]   # spec['dup2']: every list-like statement (allocate, depends, precedes, limits, leaves, vacation) is written twice


def _rep(lines):
    return lines + lines if _DUP[0] else lines


def _limits(lim, ind):
    return _rep(_limits1(lim, ind))


def _limits1(lim, ind):
    if not lim:
        return []
    out = [f"{ind}limits {{"]
    for k, v in (lim.items() if isinstance(lim, dict) else lim):   # a list of pairs allows several entries of one kind
        if isinstance(v, tuple):  # (value, [resources])
            out.append(f"{ind}  {k} {v[0]} {{ resources {', '.join(v[1])} }}")
        else:
            out.append(f"{ind}  {k} {v}")
    out.append(f"{ind}}}")
    return out


def _hours(hours, ind, kw="workinghours"):
    return [f"{ind}{kw} {days} {', '.join(rs)}" for days, rs in hours]


def leave_line(lv):
    """{'k': 'leaves'|'vacation'|'booking', 'type': 'annual', 'a': date, 'b': date|None|'+6h'}"""
    k = lv["k"]
    if k == "booking":
        return f'booking "blk" {lv["a"]} {lv["b"]}'
    rng = lv["a"] + (f" - {lv['b']}" if lv.get("b") else "")
    if k == "vacation":
        return f"vacation {rng}"
    return f"leaves {lv.get('type', 'annual')} {rng}"


def _resource(r, ind=""):
    out = [f'{ind}resource {r["id"]} "{r.get("name", r["id"])}" {{']
    i2 = ind + "  "
    if r.get("eff") is not None:
        out.append(f"{i2}efficiency {r['eff']}")
    if r.get("rate") is not None:
        out.append(f"{i2}rate {r['rate']}")
    if r.get("tz"):
        q = r.get("tzq", '"')   # STRING may be written with single or double quotes
        out.append(f'{i2}timezone {q}{r["tz"]}{q}')
    if r.get("shift"):
        out.append(f"{i2}workinghours {r['shift']}")
    out += _hours(r.get("hours") or [], i2)
    out += _rep([i2 + (lv if isinstance(lv, str) else leave_line(lv)) for lv in r.get("leaves") or []])
    out += _limits(r.get("limits"), i2)
    if r.get("limits_empty"):   # a limits block with nothing in it (it limits nothing, and hides nothing stated further up)
        out += [f"{i2}limits {{", f"{i2}}}"]
    for c in r.get("children") or []:
        out += _resource(c, i2)
    out.append(f"{ind}}}")
    return out


def _dep(d):
    if isinstance(d, str):
        return d
    opts = []
    if d.get("gaplen"):
        opts.append(f"gaplength {d['gaplen']}")
    if d.get("gap"):
        opts.append(f"gapduration {d['gap']}")
    if d.get("maxgap"):
        opts.append(f"maxgapduration {d['maxgap']}")
    if d.get("onstart"):
        opts.append("onstart")
    if d.get("onend"):
        opts.append("onend")
    return d["ref"] + (" { " + " ".join(opts) + " }" if opts else "")


def effort_str(minutes):
    if isinstance(minutes, str):
        return minutes
    return f"{minutes}min"


def _task(t, ind=""):
    out = [f'{ind}task {t["id"]} "{t.get("name", t["id"])}" {{']
    i2 = ind + "  "
    if t.get("sched"):
        out.append(f"{i2}scheduling {t['sched']}")
    if t.get("prio") is not None:
        out.append(f"{i2}priority {t['prio']}")
    if t.get("start"):
        out.append(f"{i2}start {t['start']}")
    if t.get("end"):
        out.append(f"{i2}end {t['end']}")
    if t.get("milestone"):
        out.append(f"{i2}milestone")
    if t.get("effort") is not None:
        out.append(f"{i2}effort {effort_str(t['effort'])}")
    if t.get("stmt_alloc"):   # an allocation written on a CONTAINER: the leaves marked inh=['alloc'] receive it by inheritance
        out += _rep([f"{i2}allocate " + ", ".join(t["stmt_alloc"])])
    if t.get("alloc") and "alloc" not in (t.get("inh") or ()):
        a = ", ".join(t["alloc"])
        if t.get("alt"):
            a += " { alternative " + ", ".join(t["alt"]) + " }"
        out += _rep([f"{i2}allocate {a}"])
    if t.get("deps"):
        if t.get("depsplit"):   # one 'depends' statement per predecessor
            out += _rep([f"{i2}depends " + _dep(d) for d in t["deps"]])
        else:
            out += _rep([f"{i2}depends " + ", ".join(_dep(d) for d in t["deps"])])
    if t.get("prec"):
        out += _rep([f"{i2}precedes " + ", ".join(_dep(d) for d in t["prec"])])
    out += _limits(t.get("limits"), i2)
    if t.get("limits_empty"):
        out += [f"{i2}limits {{", f"{i2}}}"]
    for sid, txt in t.get("scen") or []:
        out.append(f"{i2}{sid}:{txt}")
    out += [i2 + line for line in (t.get("raw") or [])]
    for c in t.get("children") or []:
        out += _task(c, i2)
    out.append(f"{ind}}}")
    return out


def _scen(s, ind):
    sid, kids = s
    if kids:
        out = [f'{ind}scenario {sid} "{sid}" {{']
        for k in kids:
            out += _scen(k, ind + "  ")
        out.append(f"{ind}}}")
        return out
    return [f'{ind}scenario {sid} "{sid}"']


def render(spec):
    _DUP[0] = bool(spec.get("dup2"))
    try:
        return _render(spec)
    finally:
        _DUP[0] = False


def _render(spec):
    start = spec.get("start", "2025-01-06")
    dur = spec.get("dur", "3w")
    out = [f'project {spec.get("pid", "p")} "P" {start} +{dur} {{']
    if spec.get("res_min"):
        out.append(f"  timingresolution {spec['res_min']}min")
    if spec.get("alap"):
        out.append("  scheduling alap")
    out += ["  " + line for line in (spec.get("pattrs") or [])]
    for s in spec.get("scenarios") or []:
        out += _scen(s, "  ")
    out += _hours(spec.get("pwh") or [], "  ")
    out.append("}")
    out += _rep([f"vacation {a}" + (f" - {b}" if b else "") for a, b in spec.get("vacations") or []])
    out += _rep([f'leaves {typ} "L" {a}' + (f" - {b}" if b else "") for typ, a, b in spec.get("gleaves") or []])
    out += list(spec.get("globals") or [])
    def _shifts():
        o = []
        for sh in spec.get("shifts") or []:
            o.append(f'shift {sh["id"]} "{sh["id"]}" {{')
            o.extend(_hours(sh["hours"], "  "))
            o.append("}")
        return o

    if not spec.get("shifts_after"):
        out += _shifts()
    if spec.get("tasks_first"):   # the task tree written before the resources it allocates
        for t in spec.get("tasks") or []:
            out += _task(t)
    for r in spec.get("resources") or []:
        out += _resource(r)
    if spec.get("shifts_after"):   # declared only after the resources that refer to them
        out += _shifts()
    if not spec.get("tasks_first"):
        for t in spec.get("tasks") or []:
            out += _task(t)
    out += list(spec.get("reports") or [])
    return "\n".join(out) + "\n"


# ---- helpers on specs ------------------------------------------------------------------------

def walk_tasks(tasks, prefix="", parent=None):
    """Yield (fullId, task_dict, parent_fullId) in declaration (pre-)order."""
    for t in tasks or []:
        fid = prefix + t["id"]
        yield fid, t, parent
        yield from walk_tasks(t.get("children"), fid + ".", fid)


def walk_resources(resources, prefix="", parent=None):
    for r in resources or []:
        fid = r["id"]  # resource ids are flat in the ledger (fullId includes parents)
        full = prefix + r["id"]
        yield full, r, parent
        yield from walk_resources(r.get("children"), full + ".", full)
