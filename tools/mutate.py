#!/usr/bin/env python3
"""Systematic mutation campaign against the checks (a test of the machinery, not a verdict on any property).

  tools/mutate.py list  <file-spec>...             enumerate mutants (file:function filters)
  tools/mutate.py run   <out.jsonl> [--max N] [--only file] [--skip K]

For every mutant (AST operators on selected functions of the scheduling / CLI / report code):
  1. scratch copy of /repo (without .git) under /tmp/verif-mut-<pid>, mutant written into it;
  2. the repository's own suite must still pass there (else the mutant is 'killed-by-tests' and dropped);
  3. the quick checks mapped to the mutated file run with VERIF_REPO=<copy>; the first one that reports a
     VIOLATION kills the mutant; otherwise it 'survived' (to be triaged: equivalent mutant, behaviour no property
     talks about, or a gap in a universe).
Results are appended to out.jsonl (one JSON object per mutant) so the campaign can be resumed.
"""
import ast
import copy
import json
import os
import shutil
import subprocess
import sys
import time

REPO = "/repo"
VERIF_HOME = os.path.dirname(os.path.dirname(os.path.abspath(__file__)))
TARGETS = {
    "scriptplan/core/task_scenario.py": (["schedule", "scheduleSlot", "_calculatePreciseEndTimeAndRelease", "bookResources", "bookResource", "_selectBestResources",
                                          "_estimateCompletionTime", "readyForScheduling", "_asapReadyForScheduling", "_alapReadyForScheduling", "_getSuccessors",
                                          "getAllDependencies", "limitsOk", "incLimits", "scheduleContainer", "prepareScheduling", "_parse_duration", "getCost"],
                                         ["C01", "C03", "C04", "C06", "C07", "C08", "C05", "C10", "C09", "C16", "C18"]),
    "scriptplan/core/resource_scenario.py": (["available", "book", "getAvailableSecondsInSlot", "onShift", "initScoreboard", "prepareScheduling"],
                                             ["C01", "C02", "C03", "C05", "C07", "C08", "C16"]),
    "scriptplan/core/limits.py": (["_idx_to_sb_idx", "inc", "ok", "reset", "setLimit", "copy"], ["C05", "C14", "C07", "C16"]),
    "scriptplan/core/project.py": (["schedule", "prepareScenario", "_propagateContainerEndDates", "scheduleScenario", "_updateContainerTaskStatus", "_propagateALAPMode",
                                    "_markTaskALAP", "_extendProjectEndIfNeeded", "initScoreboards", "_isDefaultWorkingTime", "isWorkingTime", "dateToIdx", "idxToDate",
                                    "scoreboardSize"], ["C07", "C09", "C10", "C04", "C08", "C02", "C11", "C16", "C17", "C13", "C12"]),
    "scriptplan/core/working_hours.py": (["set_hours", "onShift", "get_daily_hours", "_convert_to_timezone"], ["C02", "C13", "C08", "C14"]),
    "scriptplan/scheduler/scoreboard.py": (["__init__", "idxToDate", "dateToIdx", "collectIntervals"], ["C17", "C13"]),
    "scriptplan/parser/tjp_parser.py": (["_resolve_dependencies", "_resolve_precedes", "_resolve_task_reference", "_apply_property_attributes", "_get_scenario_index",
                                         "build", "effort_value", "day_spec", "limit_dailymax"], ["C15", "C04", "C16", "C02", "C05", "C11", "C07"]),
    "scriptplan/parser/macro_processor.py": (["strip_shell_comments", "_extract_macros", "_expand_macros", "_expand_once", "_expand_macro_call"], ["C15", "C11"]),
    "scriptplan/report/table_report.py": (["to_json", "to_csv", "generate_cell", "_get_cell_value", "_get_cost_value", "_format_value", "generate_header_cell"], ["C18", "C19", "C12"]),
    "scriptplan/report/task_report.py": (["_prepare_task_list", "_generate_task_list", "_generate_task_line", "_sort_task_list"], ["C18", "C19"]),
    "scriptplan/report/report.py": (["generate", "_get_output_path", "_generate_json", "_generate_csv"], ["C18", "C19", "C20"]),
    "scriptplan/cli/plan.py": (["create_auto_report_file", "report", "validate_tjp_file"], ["C19", "C20"]),
    "scriptplan/cli/main.py": (["run_scriptplan", "generate_reports", "parse_files", "schedule", "run"], ["C19", "C20", "C12"]),
    "scriptplan/core/property.py": (["deep_clone", "inheritAttributes"], ["C04", "C11", "C16", "C07"]),
}

CMP = {ast.Lt: ast.LtE, ast.LtE: ast.Lt, ast.Gt: ast.GtE, ast.GtE: ast.Gt, ast.Eq: ast.NotEq, ast.NotEq: ast.Eq, ast.Is: ast.IsNot, ast.IsNot: ast.Is}
BIN = {ast.Add: ast.Sub, ast.Sub: ast.Add, ast.Mult: ast.FloorDiv}


class Finder(ast.NodeVisitor):
    """collect mutation sites inside the selected functions"""

    def __init__(self, funcs):
        self.funcs, self.sites, self.cur = set(funcs), [], None

    def visit_FunctionDef(self, node):
        prev = self.cur
        if node.name in self.funcs or prev:
            self.cur = prev or node.name
        self.generic_visit(node)
        self.cur = prev

    def generic_visit(self, node):
        if self.cur:
            if isinstance(node, ast.Compare) and len(node.ops) == 1 and type(node.ops[0]) in CMP:
                self.sites.append(("cmp", node, self.cur))
            elif isinstance(node, ast.BinOp) and type(node.op) in BIN and not isinstance(node.left, ast.Constant) or (
                    isinstance(node, ast.BinOp) and type(node.op) in BIN and not isinstance(node.left.value if isinstance(node.left, ast.Constant) else None, str)):
                if isinstance(node, ast.BinOp) and type(node.op) in BIN:
                    self.sites.append(("bin", node, self.cur))
            elif isinstance(node, ast.BoolOp):
                self.sites.append(("bool", node, self.cur))
            elif isinstance(node, ast.If):
                self.sites.append(("ifnot", node, self.cur))
            elif isinstance(node, ast.Constant) and isinstance(node.value, int) and not isinstance(node.value, bool) and node.value in (0, 1):
                self.sites.append(("const", node, self.cur))
            elif isinstance(node, (ast.Break, ast.Continue)):
                self.sites.append(("brk", node, self.cur))
            elif isinstance(node, ast.Return) and node.value is not None and isinstance(node.value, ast.Constant) and isinstance(node.value.value, bool):
                self.sites.append(("retbool", node, self.cur))
        super().generic_visit(node)


def mutants_of(path, funcs):
    src = open(os.path.join(REPO, path)).read()
    tree = ast.parse(src)
    f = Finder(funcs)
    f.visit(tree)
    out = []
    for k, (kind, node, fn) in enumerate(f.sites):
        t2 = copy.deepcopy(tree)
        f2 = Finder(funcs)
        f2.visit(t2)
        kind2, n2, _ = f2.sites[k]
        desc = f"{path}:{getattr(node, 'lineno', 0)} {fn} {kind}"
        if kind == "cmp":
            n2.ops = [CMP[type(n2.ops[0])]()]
        elif kind == "bin":
            n2.op = BIN[type(n2.op)]()
        elif kind == "bool":
            n2.op = ast.Or() if isinstance(n2.op, ast.And) else ast.And()
        elif kind == "ifnot":
            n2.test = ast.UnaryOp(op=ast.Not(), operand=n2.test)
        elif kind == "const":
            n2.value = 1 - n2.value
        elif kind == "brk":
            # replace break<->continue
            new = ast.Continue() if isinstance(n2, ast.Break) else ast.Break()
            for parent in ast.walk(t2):
                for field, val in ast.iter_fields(parent):
                    if isinstance(val, list) and n2 in val:
                        val[val.index(n2)] = ast.copy_location(new, n2)
        elif kind == "retbool":
            n2.value = ast.Constant(value=not n2.value.value)
        try:
            ast.fix_missing_locations(t2)
            code = ast.unparse(t2)
            compile(code, path, "exec")
        except Exception:
            continue
        seg = ast.get_source_segment(src, node) or ""
        out.append({"id": f"{path.split('/')[-1]}:{k}", "path": path, "desc": desc, "segment": seg[:120], "code": code})
    return out


def all_mutants(only=None):
    for path, (funcs, checks) in TARGETS.items():
        if only and only not in path:
            continue
        for m in mutants_of(path, funcs):
            m["checks"] = checks
            yield m


def sh(cmd, timeout=3600, env=None):
    return subprocess.run(cmd, shell=True, capture_output=True, text=True, timeout=timeout, env=env)


def run_campaign(out_path, maxn, only, skip, stride):
    done = set()
    if os.path.exists(out_path):
        for line in open(out_path):
            try:
                done.add(json.loads(line)["id"])
            except Exception:
                pass
    scratch = f"/tmp/verif-mut-{os.getpid()}"
    n = 0
    for i, m in enumerate(all_mutants(only)):
        if i < skip or (i - skip) % stride or m["id"] in done:
            continue
        if n >= maxn:
            break
        n += 1
        t0 = time.time()
        shutil.rmtree(scratch, ignore_errors=True)
        sh(f"rsync -a --exclude .git --exclude '*.so' --exclude '__pycache__' {REPO}/ {scratch}/")
        open(os.path.join(scratch, m["path"]), "w").write(m["code"])
        rec = {"id": m["id"], "desc": m["desc"], "segment": m["segment"]}
        try:
            t = sh(f"cd {scratch} && PYTHONPATH={scratch} timeout 600 /venv/bin/python -m pytest -q -x -p no:cacheprovider 2>&1 | tail -1", timeout=900)
            rec["tests"] = t.stdout.strip()[-80:]
            if "passed" not in rec["tests"] or "failed" in rec["tests"] or "error" in rec["tests"]:
                rec["verdict"] = "killed-by-tests"
            else:
                rec["verdict"] = "survived"
                rec["ran"] = []
                env = dict(os.environ, VERIF_REPO=scratch, PYTHONHASHSEED="0")
                for c in m["checks"]:
                    r = sh(f"cd {VERIF_HOME} && ./check {c} --tier quick", timeout=1800, env=env)
                    rec["ran"].append(c)
                    if r.returncode == 1 and "VIOLATION" in r.stdout:
                        rec["verdict"] = "killed-by-" + c
                        rec["detail"] = next((l.strip() for l in r.stdout.splitlines() if l.strip().startswith("clause=")), "")[:240]
                        break
                    if r.returncode not in (0, 1):
                        rec["verdict"] = f"harness-exit-{r.returncode}-in-{c}"
                        rec["detail"] = (r.stdout + r.stderr)[-300:]
                        break
        except subprocess.TimeoutExpired:
            rec["verdict"] = "timeout"
        rec["wall_s"] = round(time.time() - t0, 1)
        with open(out_path, "a") as fh:
            fh.write(json.dumps(rec) + "\n")
        print(rec["id"], rec["verdict"], rec.get("detail", "")[:100], flush=True)
    shutil.rmtree(scratch, ignore_errors=True)
    sh(f"git -C {VERIF_HOME} checkout -- evidence")


if __name__ == "__main__":
    if sys.argv[1] == "list":
        ms = list(all_mutants(sys.argv[2] if len(sys.argv) > 2 else None))
        for m in ms:
            print(m["id"], m["desc"], "|", m["segment"].replace("\n", " ")[:80])
        print(len(ms), "mutants")
    else:
        a = sys.argv[2:]
        out = a[0]
        get = lambda flag, d: int(a[a.index(flag) + 1]) if flag in a else d  # noqa: E731
        only = a[a.index("--only") + 1] if "--only" in a else None
        run_campaign(out, get("--max", 10**9), only, get("--skip", 0), get("--stride", 1))
