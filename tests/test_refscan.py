from mc.grids import ref_scan


def test_ref_scan_hand_cases():
    assert ref_scan((1, 1, 0, 1), 0, 4, 1) == [(0, 2), (3, 4)]
    assert ref_scan((1, 1, 0, 1), 0, 4, 2) == [(0, 2)]
    assert ref_scan((1, 1, 0, 1), 1, 4, 2) == [(1, 2)]          # clipped, run length counted before clipping
    assert ref_scan((0, 1, 1, 1), 0, 1, 1) == []                # run outside window
    assert ref_scan((1, 1, 1), 1, 1, 1) == []                   # empty window
    assert ref_scan((1, 0, 1, 1, 1), 3, 5, 3) == [(3, 5)]
