"""Dispatcher and shared exploration loop.

  python -m mc.run C07 --tier quick            run a check
  python -m mc.run C07 --replay <file>         re-run one stored counterexample, no explorer
  python -m mc.run C02 --tier quick --learn D19    (developer) record currently failing keys of a finding

Exit 0: property held on everything explored (KNOWN-FINDING lines allowed);
exit 1 + 'VIOLATION property=<id> replay=<path>': a violation that no known-findings list contains;
exit 3: harness error (nondeterminism, worker failure) - never used to hide a violation.
"""
import argparse
import importlib
import itertools
import json
import os
import random
import sys
import time

from mc import findings as F
from mc import render

VERIF = os.path.dirname(os.path.dirname(os.path.abspath(__file__)))
MAX_REPORT = 3  # replay files / VIOLATION lines printed per clause and run (all are counted)


class Ctx:
    def __init__(self, prop, tier, seed, learn=None):
        self.prop, self.tier, self.seed, self.learn = prop, tier, seed, learn
        self.t0 = time.time()
        self.findings = F.load(prop)
        self.violations = 0  # not covered by a known finding
        self.known_hits = 0
        self.reported = []
        self.learned = 0
        self._pools = {}
        self.notes = []
        self.cap_hit = None
        self.budget_s = float(os.environ.get("VERIF_BUDGET_S", "0")) or None

    # ---- pools -------------------------------------------------------------------------------
    def pool(self, mode="rebuilt"):
        from mc.pool import Pool

        if mode not in self._pools:
            self._pools[mode] = Pool(mode)
        return self._pools[mode]

    def close(self):
        for p in self._pools.values():
            p.terminate()
        self._pools = {}

    def order(self, n):
        idx = list(range(n))
        random.Random(self.seed).shuffle(idx)
        return idx

    # ---- violations --------------------------------------------------------------------------
    def violation(self, clause, key, payload, trait_ok=None):
        """Register one violating (clause, input). payload is stored as the replay artefact."""
        f = F.match(self.findings, clause, key)
        if f is not None:
            self.known_hits += 1
            return "known"
        if self.learn:
            for f in self.findings:
                if f.id == self.learn and f.clause == clause and (trait_ok is None or trait_ok(f.id)):
                    f.keys.add(key)
                    self.learned += 1
                    return "learned"
        self.violations += 1
        self._per_clause = getattr(self, '_per_clause', {})
        self._per_clause[clause] = self._per_clause.get(clause, 0) + 1
        if self._per_clause[clause] <= MAX_REPORT:
            d = os.path.join(VERIF, "replays", self.prop)
            os.makedirs(d, exist_ok=True)
            import re
            safe = re.sub(r"[^A-Za-z0-9_.-]+", "_", f"{clause}-{key}")[:120]
            path = os.path.join(d, f"{safe}.json")
            with open(path, "w") as fh:
                json.dump({"property": self.prop, "clause": clause, "key": key, **payload}, fh, indent=1, default=str)
            self.reported.append(path)
            print(f"VIOLATION property={self.prop} replay={path}")
            detail = payload.get("detail")
            if detail:
                print(f"  clause={clause} detail={str(detail)[:300]}")
            sys.stdout.flush()
        return "new"

    # ---- evidence ----------------------------------------------------------------------------
    def finish(self, coverage, assumptions, level="model_checking"):
        self.close()
        for f in self.findings:
            if f.hits:
                print(f"KNOWN-FINDING: property={self.prop} id={f.id} clause={f.clause} {f.what} "
                      f"[{f.hits} listed inputs failed in this run]")
        if self.learn:
            for f in self.findings:
                if f.id == self.learn:
                    f.save()
                    print(f"LEARNED finding={f.id} added={self.learned} total={len(f.keys)} -> {f.keys_path}")
        cov = dict(coverage)
        cov.setdefault("exhaustive", self.cap_hit is None)
        if self.cap_hit:
            cov["cap_hit"] = self.cap_hit
        cov["known_finding_hits"] = {f.id: f.hits for f in self.findings if f.hits}
        if self.notes:
            cov["notes"] = self.notes
        ev = {
            "property_id": self.prop,
            "tier": self.tier,
            "seed": self.seed,
            "level": level,
            "coverage": cov,
            "assumptions": assumptions,
            "wall_s": round(time.time() - self.t0, 2),
            "violations": self.violations,
        }
        if not self.learn:
            os.makedirs(os.path.join(VERIF, "evidence"), exist_ok=True)
            tmp = os.path.join(VERIF, "evidence", f".{self.prop}.json.tmp")
            with open(tmp, "w") as fh:
                json.dump(ev, fh, indent=1, default=str)
            os.replace(tmp, os.path.join(VERIF, "evidence", f"{self.prop}.json"))
        brief = {k: v for k, v in cov.items() if isinstance(v, (int, float, bool))}
        print(f"{self.prop} tier={self.tier} seed={self.seed} violations={self.violations} "
              f"known_hits={self.known_hits} wall={ev['wall_s']}s {brief}")
        return 1 if self.violations else 0


def batched(it, n):
    it = iter(it)
    while True:
        b = list(itertools.islice(it, n))
        if not b:
            return
        yield b


class Stats:
    """Aggregates per-item results of the standard form
       {'k': key, 'v': [(clause, detail)], 'nt': bool, 's': state signature(s), 'tr': transitions}"""

    def __init__(self):
        self.evaluations = 0
        self.states = set()
        self.transitions = 0
        self.nontrivial = set()
        self.samples = []
        self.by_clause = {}
        self.skipped = 0
        self.extra = {}

    def coverage(self, rule, **kw):
        c = {
            "states": len(self.states),
            "transitions": self.transitions,
            "traces_validated_against_impl": self.evaluations,
            "evaluations": self.evaluations,
            "distinct_nontrivial": len(self.nontrivial),
            "rule": rule,
            "samples": self.samples,
            "violations_by_clause": self.by_clause,
            "skipped_preconditions": self.skipped,
        }
        c.update(self.extra)
        c.update(kw)
        return c


def explore(ctx, items, fn_path, stats=None, mode="rebuilt", timeout=30.0, batch=20000, payload=None,
            trait=None, sample_of=None, recheck=32):
    """Mode A/B work-horse: evaluate every item of a finite universe on the real code.

    items: iterable of picklable items (specs); fn_path 'module:function' returns the standard result.
    payload(item, clause, detail) -> dict stored in the replay file (default: spec + rendered text).
    trait(item, clause, detail, finding_id) -> bool guards --learn.
    """
    from mc.pool import die_on_harness_errors

    stats = stats or Stats()
    pool = ctx.pool(mode)
    first_items, first_results = [], []
    total_seen = 0
    for chunk in batched(items, batch):
        if ctx.budget_s and time.time() - ctx.t0 > ctx.budget_s:
            ctx.cap_hit = f"time budget {ctx.budget_s}s reached after {total_seen} items"
            break
        res = pool.map(fn_path, chunk, timeout=timeout, order=ctx.order(len(chunk)))
        die_on_harness_errors(res)
        if len(first_items) < recheck:
            take = recheck - len(first_items)
            first_items += chunk[:take]
            first_results += res[:take]
        for item, r in zip(chunk, res):
            total_seen += 1
            stats.evaluations += 1
            if "__timeout__" in r or "__memory__" in r:
                k = render.key(item)
                clause = "hang" if "__timeout__" in r else "memory"
                stats.by_clause[clause] = stats.by_clause.get(clause, 0) + 1
                ctx.violation(clause, k, _payload(payload, item, clause, f"limit {timeout}s / memory"))
                continue
            if r.get("skip"):
                stats.skipped += 1
                continue
            s = r.get("s")
            if isinstance(s, (list, tuple, set)):
                stats.states.update(s)
            elif s is not None:
                stats.states.add(s)
            stats.transitions += r.get("tr", 0)
            if r.get("nt"):
                stats.nontrivial.add(r["k"])
            for name, val in (r.get("x") or {}).items():
                stats.extra[name] = stats.extra.get(name, 0) + val
            for clause, detail in r.get("v") or []:
                stats.by_clause[clause] = stats.by_clause.get(clause, 0) + 1
                tr = (lambda fid, item=item, clause=clause, detail=detail: trait(item, clause, detail, fid)) if trait else None
                ctx.violation(clause, r["k"], _payload(payload, item, clause, detail), trait_ok=tr)
        # samples: first, and keep replacing middle/last
        if chunk:
            sm = sample_of or _default_sample
            if not stats.samples:
                stats.samples.append(sm(chunk[0]))
            if len(stats.samples) < 3:
                stats.samples.append(sm(chunk[len(chunk) // 2]))
            last = sm(chunk[-1])
            if len(stats.samples) >= 3:
                stats.samples[-1] = last
            else:
                stats.samples.append(last)
    # determinism self-check: the first items again (other worker, other time) must give equal results
    if first_items:
        again = pool.map(fn_path, first_items, timeout=timeout)
        die_on_harness_errors(again)
        for a, b, it in zip(first_results, again, first_items):
            if _strip(a) != _strip(b):
                print("HARNESS-NONDETERMINISM: same item, different result\n", json.dumps(it, default=str)[:500],
                      "\n", a, "\n", b)
                sys.stdout.flush()
                ctx.close()
                os._exit(3)
    return stats


def _strip(r):
    return json.dumps(r, sort_keys=True, default=str)


def _default_sample(item):
    if isinstance(item, dict) and "tasks" in item:
        return {"spec_key": render.key(item), "tjp": render.render(item)[:1500]}
    return json.loads(json.dumps(item, default=str))


def _payload(payload, item, clause, detail):
    if payload:
        return payload(item, clause, detail)
    p = {"item": item, "detail": detail}
    if isinstance(item, dict) and "tasks" in item:
        try:
            p["tjp"] = render.render(item)
        except Exception:
            pass
    return p


def main(argv=None):
    ap = argparse.ArgumentParser()
    ap.add_argument("prop")
    ap.add_argument("--tier", default=os.environ.get("VERIF_TIER", "quick"), choices=["quick", "thorough"])
    ap.add_argument("--replay")
    ap.add_argument("--learn")
    a = ap.parse_args(argv)
    seed = int(os.environ.get("VERIF_SEED", "0") or 0)
    mod = importlib.import_module(f"mc.props.{a.prop.lower()}")
    if a.replay:
        return mod.replay(a.replay)
    ctx = Ctx(a.prop, a.tier, seed, learn=a.learn)
    try:
        rc = mod.run(ctx)
    finally:
        ctx.close()
    sys.stdout.flush()
    return rc


if __name__ == "__main__":
    sys.exit(main())
