#!/usr/bin/env python3
"""Regenerate MANIFEST.json from the table below (run after adding a check)."""
import json, os
V = os.path.dirname(os.path.dirname(os.path.abspath(__file__)))
props = [json.loads(l) for l in open(os.path.join(V, "properties.jsonl"))]

# id -> (category, technique, level text, level note)
CHECKS = {}
def chk(pid, cat, technique, text, note, design):
    CHECKS[pid] = dict(cat=cat, technique=technique, text=text, note=note, design=design)

exec(open(os.path.join(V, "tools", "checks_table.py")).read())

# families added to the universes after the first build (rounds of seeded changes, mutation campaign); appended to the level text
ADDED = {
    "C01": "team-blocker cases; fractional resolutions (7.5 / 2.5 / 0.5 min) in both implementations with the slot-clock clause; projects starting exactly at a working slot (slot index 0); the 'wide' universe (two ten-task bases x every subset of <= 2/3 of 38 feature toggles - incl. order of writing, every statement written twice, nested days off, inherited values, typed container dates - compiled and pure-Python); duplicate local ids; a forward task whose bound lies inside slots held by a backward task.",
    "C02": "leave layouts beginning before the project start or ending inside a slot; zone written in single quotes; shift declared after use; three days off of one kind written in every order; nested / touching / hour-boundary days off; group calendars overridden by a member's shift or plain hours; group leaves next to own leaves; a shift ending exactly at 0:00; the 'wide' universe.",
    "C03": "team blockers; team limits at task / group / member / grand-group / container / member-restricted placements; two alternatives; mixed-efficiency team clause; the 'wide' universe.",
    "C04": "shape S6 (thorough); 'precedes' with options; one depends statement per predecessor; gaps in every unit incl. months and years (26-month window); gaplength; the same predecessor at two levels / stated twice / via precedes and depends; a predecessor exactly on the project start; mixed-direction chains inside a dated container; the 'wide' universe.",
    "C05": "limits in minutes / days / weeks; a daily AND a weekly limit on one entity; grand-group / grand-container placements; 50-minute resolution; restricted entries naming resources declared later (task tree written first); a limited group that is also named as an alternative; an empty limits block in between; a resource booked by a forward and a backward task; mode B histories on the bare Limits object; the 'wide' universe.",
    "C06": "backward milestones; milestones behind dated containers; milestones inside dated containers (inherited lower bound); clauses frame-overlap and sliver; team blockers; implicit milestones; mixed directions (family mixend; family mixdir = open finding D69); the 'wide' universe.",
    "C07": "container predecessors; the 'wide7' family (ten-task core-dialect bases x subsets of 35 toggles incl. DST window, night shift, minute-valued limits, eleven top-level tasks) in both implementations.",
    "C08": "patterns gapchain / nestends / mid-hour bounds; clause idle-bound-slot; gaplength at fine resolutions; an option entry before a plain entry; two successors with different gaps; a forward-pinned task upstream of a backward anchor (clause idle-direction); leave layouts of C02; the 'wide' universe.",
    "C09": "special intruders (dependent, ALAP, milestone, 40 h), two scenarios, container-predecessor bases; the 'wide9' family (also an added task that repeats an existing id); the 'inhprio' family (added priority between a container's and its leaves'); the 'msgate' and 'mixprio' families (containers of dated milestones; added backward task in a forward project and the mirror image); the 'alapext' family (open finding D55).",
    "C10": "leaf kinds allocating a resource group (also as primary / alternative candidate); repeating local ids; a child that overrides the dated container's start; a second scenario in which one leaf cannot be scheduled; a backward leaf among forward siblings; the 'wide' universe.",
    "C11": "cycles x attached task kinds; alternative state vectors (ok / busy / never / slow / efficiency 0); later scenario bigger than the window; gaplength; macro rings; project durations in every unit; contradictory and barely-outside typed dates; efforts and gaps of thousands of years; 2 / 3 / 18 statements of each list-like kind in one body; mixed allocate statements; the contiguous flag x efficiency 0; runs without a standard error; 11 corpus texts.",
    "C12": "operations engine / abort; 13 probes incl. two that use another probe's macros without defining them, calendar and macro variants of one project; every probe also in fresh processes under other time zones and the plain C locale; six hash-order probes (two with everything named twice) under hash seeds 0..7 (thorough 0..31).",
    "C13": "resolutions that do not divide a day and 7.5 min; unsorted interval sets; TZ-environment grids; the far grid (90-year window); every whole-minute resolution 1..120 at slot starts; the 'wide' universe.",
    "C14": "leap-year start; 9-, 20-, 60- and 110-week bases; five-week shutdowns; starts at the ISO-year boundary (2027-01-01, 2028-01-01, window ending 12-31); month gaps; group limits; days off written latest-first; two-scenario bases (every scenario compared).",
    "C15": "30 bases incl. mixed depends lists, a container as successor (backward with an end; maxgap), shared short ids, dotted relative references, the same relative text in two containers, calendars on resource groups; depends <-> precedes with options; order of a depends list; comments inside macro bodies.",
    "C16": "out-of-window and early-pin overrides; dated-container base; task-level ALAP anchors behind forward-declared predecessors; branching and four-deep scenario trees; one attribute overridden in two scenarios in both written orders (also with the plain value again); every statement written twice; large nested overrides.",
    "C17": "resolutions 7, 7.5, 25, 50 min (thorough 17 values); every whole-minute resolution 1..120 at slot starts; grids under TZ=Europe/Berlin and TZ=America/New_York across their switches; the far grid (90-year window, around 2^31 seconds).",
    "C18": "12 projects incl. teams listed against the declaration order, rates inherited from groups and overridden by rate 0, allocations with alternatives, a project whose first booking is slot 0, shared nested short ids, 11 rows, one task per day across a year end; two-scenario project with per-scenario reports.",
    "C19": "inputs with CRLF, UTF-8 names, one task per day across two year ends; a task id stated twice (judged where accepted); no tasks at all; own reports in sub-directories; the same runs under the plain C locale, other time zones and a symlinked TMPDIR; channels path / '-' / no argument / path with spaces.",
    "C20": "odd (non-UTF-8) file names; report names escaping the output directory in several ways; an existing -o file; two-process interleavings incl. -o files whose names share a stem; byte writes to stdout intercepted; default SIGPIPE disposition emulated.",
}
for _pid, _txt in ADDED.items():
    if _pid in CHECKS:
        CHECKS[_pid]["text"] = CHECKS[_pid]["text"].rstrip() + " Added since the first build: " + _txt

checks, na = [], []
for p in props:
    pid = p["id"]
    if pid in CHECKS and os.path.exists(os.path.join(V, "mc", "props", pid.lower() + ".py")):
        c = CHECKS[pid]
        checks.append({
            "property_id": pid,
            "quick_cmd": f"./check {pid} --tier quick",
            "thorough_cmd": f"./check {pid} --tier thorough",
            "evidence_file": f"/verif/evidence/{pid}.json",
            "replay_cmd_template": f"./check {pid} --replay {{path}}",
            "engine": "mc",
            "level_claimed": {"category": c["cat"], "text": c["text"], "design_ref": c["design"]},
            "level_note": c["note"],
            "technique": c["technique"],
        })
    else:
        na.append({"property_id": pid, "reason": "check not built yet in this revision of /verif (design in DESIGN.md section 4); nothing is claimed for it"})
m = {
    "version": 1,
    "setup_cmd": "cd /verif && PYTHONHASHSEED=0 /venv/bin/python -m mc.cyext && PYTHONHASHSEED=0 /venv/bin/python -m pytest -q -p no:cacheprovider tests",
    "hooks": {
        "guard": "SCRIPTPLAN_VERIF",
        "enable": "no in-repo hooks exist: observation is done from /verif by run-time wrappers (observers, audit hooks, import finder for the extension modules); the guard name is reserved",
        "baseline_off_cmd": "cd /repo && /venv/bin/python -m pytest -ra -q -p no:cacheprovider --timeout=900 --continue-on-collection-errors",
        "source_commits": [],
        "add_only": True,
    },
    "engines": [{
        "name": "mc", "path": "/verif/mc",
        "serves_properties": [c["property_id"] for c in checks],
        "kind_free_text": "hand-written explicit-state / bounded-universe explorer that runs the real scriptplan code in 16 forked workers (mc/pool.py, mc/run.py), with reference models under mc/ref and per-property universes + oracles under mc/props",
    }],
    "checks": checks,
    "not_applicable": na,
    "notes": "All verdicts come from exhaustive enumeration of explicitly bounded spaces on the real code; see DESIGN.md. Known findings: known_findings.txt + known/*.keys.gz.",
}
json.dump(m, open(os.path.join(V, "MANIFEST.json"), "w"), indent=1)
print("checks:", [c["property_id"] for c in checks], "not_applicable:", len(na))
