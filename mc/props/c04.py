"""C04 - dependencies and gaps are respected (DESIGN 4, C04).

Task trees (<= 4 leaves, <= 2 container levels) x every acyclic edge set between unrelated nodes (leaf or
container, declared before or after the dependent) x edge kind / gap / spelling x pins x resources x
ASAP / ALAP projects. Edges are re-derived from the spec by RefDeps; dates come from the real scheduler.
"""
import itertools

from mc import oracles
from mc.props import common
from mc.ref.deps import RefDeps
from mc.run import Stats, explore

ASSUME = [
    "project 2025-01-06 +4w, default calendar, UTC, 1 h resolution (thorough adds 30 min); efforts 90/150/60/40 min so that predecessors end mid-slot",
    "gap durations are calendar time (min, h, d = 24 h, w = 7 d, m = 30 d, y = 365 d - the units table of the implementation); gaplength (forward only) = that many working hours (d = 8 h, w = 40 h) of the project calendar, counted in whole slots from the slot holding the predecessor's end",
    "ALAP projects: deadlines (`end`) only on tasks without successors; on-start edges are not generated in ALAP (not claimed)",
    "a task with an own `start` (forward) / own `end` (backward) is not judged; a date inherited from a container is not a pin of its own",
    "only scheduled tasks are judged (unscheduled ones are C11's business)",
]

SHAPES = {
    "S1": [("a", []), ("b", []), ("c", [])],
    "S2": [("g", [("a", []), ("b", [])]), ("c", [])],
    "S5": [("a", []), ("g", [("b", []), ("c", [])])],
    "S4": [("g", [("h", [("a", []), ("b", [])]), ("c", [])]), ("d", [])],
    "S3": [("g", [("a", []), ("b", [])]), ("h", [("c", []), ("d", [])])],
    "S6": [("g", [("h", [("a", []), ("b", [])]), ("k", [("c", []), ("d", [])])])],   # cousins two levels down (used by C15 and thorough)
}
EFFORT = {"a": 90, "b": 150, "c": 60, "d": 40}
KG_Q = [("end", None), ("end", "90min"), ("end", "1d"), ("start", "30min")]
KG_T = [("end", None), ("end", "30min"), ("end", "90min"), ("end", "1d"), ("start", None), ("start", "30min"), ("start", "1d")]


def nodes_of(shape, prefix="", parent=None, out=None):
    out = out if out is not None else []
    for nid, kids in shape:
        fid = prefix + nid
        out.append((fid, parent, bool(kids)))
        nodes_of(kids, fid + ".", fid, out)
    return out


def related(a, b):
    return a == b or a.startswith(b + ".") or b.startswith(a + ".")


def edge_sets(shape, maxe):
    ns = [n[0] for n in nodes_of(shape)]
    pairs = [(x, y) for x in ns for y in ns if not related(x, y)]  # x depends on y
    for k in range(0, maxe + 1):
        for sub in itertools.combinations(pairs, k):
            yield sub


def build(shape_key, edges, kg, spelling, pin, shared, mode, L=60):
    shape = SHAPES[shape_key]
    nl = nodes_of(shape)
    parent = {f: p for f, p, _c in nl}
    leaves = [f for f, _p, c in nl if not c]

    def ref(frm, to):
        if spelling == "abs":
            return to
        # relative: climb from frm's parent until it is an ancestor of `to`
        base = parent[frm]
        bangs = 1
        while base is not None and not to.startswith(base + "."):
            base = parent[base]
            bangs += 1
        rest = to[len(base) + 1:] if base else to
        return "!" * bangs + rest

    deps, precs = {}, {}
    for x, y in edges:
        kind, gap = kg
        if spelling == "prec":
            # absolute ref from the predecessor's side; gap / onstart are options of the precedes statement
            d = {"ref": x}
            if gap:
                d["gap"] = gap
            if kind == "start":
                d["onstart"] = True
            precs.setdefault(y, []).append(d if (gap or kind == "start") else x)
        else:
            d = {"ref": ref(x, y)}
            if gap:
                d["gap"] = gap
            if kind == "start":
                d["onstart"] = True
            deps.setdefault(x, []).append(d)
    succ = {y for _x, y in edges}

    def mk(shape, prefix=""):
        out = []
        for nid, kids in shape:
            fid = prefix + nid
            t = {"id": nid}
            if kids:
                t["children"] = mk(kids, fid + ".")
            else:
                t["effort"] = EFFORT[nid]
                t["alloc"] = ["r1"] if shared else ["r" + nid]
            if fid in deps:
                t["deps"] = deps[fid]
                if spelling == "split":
                    t["depsplit"] = True
            if fid in precs:
                t["prec"] = precs[fid]
            if pin in ("container", "container-early") and kids and fid == next(f for f, _p, c in nl if c):
                # 'early': the typed date lies before what the children can reach, so the container's real start is later
                t["start"] = "2025-01-07-09:00" if pin == "container" else "2025-01-06-09:00"
            if pin == "leaf" and fid == leaves[0]:
                t["start"] = "2025-01-07-10:00"
            if pin == "cend" and kids and fid == next(f for f, _p, c in nl if c):
                t["end"] = "2025-01-17-17:00"   # a deadline on an enclosing container (backward projects)
            if mode == "alap-end" and not kids:
                # a sink: nothing depends on it or on any of its ancestors
                anc = [fid] + [a for a in _anc(parent, fid)]
                if not any(a in succ for a in anc):
                    t["end"] = "2025-01-17-17:00"
            out.append(t)
        return out

    res = [{"id": "r1"}] if shared else [{"id": "r" + l.split(".")[-1]} for l in leaves]
    return {"dur": "4w", "res_min": L if L != 60 else None, "alap": mode != "asap", "resources": res, "tasks": mk(shape)}


def _anc(parent, f):
    p = parent[f]
    while p:
        yield p
        p = parent[p]


def universe(tier):
    shapes = ["S1", "S2", "S5", "S4", "S3"] + (["S6"] if tier != "quick" else [])
    for sk in shapes:
        maxe = 2 if tier == "quick" else (3 if sk != "S6" else 2)
        for edges in edge_sets(SHAPES[sk], maxe):
            for kg in (KG_Q if tier == "quick" else KG_T):
                if not edges and kg != KG_Q[0]:
                    continue
                for spelling in ("rel", "abs", "prec", "split"):
                    if spelling == "split" and max([sum(1 for e in edges if e[0] == x) for x, _y in edges] or [0]) < 2:
                        continue  # 'split' = one depends statement per predecessor: differs from 'rel' only with >= 2 predecessors
                    if spelling == "prec" and kg[0] != "end" and tier == "quick":
                        continue
                    if not edges and spelling != "rel":
                        continue
                    for pin in (None, "container", "container-early", "leaf", "cend"):
                        if pin in ("container", "container-early", "cend") and sk == "S1":
                            continue
                        for shared in ((True, False) if (tier != "quick" or kg[0] == "start") else (True,)):
                            for mode in ("asap", "alap", "alap-end"):
                                if mode != "asap" and (kg[0] == "start" or pin in ("container", "container-early", "leaf")):
                                    continue
                                if pin == "cend" and mode == "asap":
                                    continue
                                yield {"sk": sk, "edges": edges, "kg": kg, "sp": spelling, "pin": pin, "shared": shared, "mode": mode}
    yield from longgaps(tier)
    yield from mixedgaps(tier)
    yield from precsame(tier)
    yield from samepred(tier)
    yield from dupedge(tier)
    yield from atstart(tier)
    yield from mixchain(tier)


LONG_GAPS = ["1m", "2m", "1.5m", "1y", "5w", "45d", "1000h", "0.5y"]


def longgaps(tier):
    """gaps in every unit of the language (months and years need windows of many months)"""
    for gap in LONG_GAPS:
        for onstart in (False, True):
            for mode in ("asap", "alap"):
                if onstart and mode == "alap":
                    continue
                for via in ("leaf", "container", "inherited"):
                    yield {"kind": "longgap", "gap": gap, "onstart": onstart, "mode": mode, "via": via}


def longgap_spec(it):
    d = {"ref": "a", "gap": it["gap"]}
    if it["onstart"]:
        d["onstart"] = True
    a = {"id": "a", "effort": 600, "alloc": ["r1"]}
    b = {"id": "b", "effort": 300, "alloc": ["r2"]}
    if it["via"] == "leaf":
        b["deps"] = [d]
        tasks = [a, b]
    elif it["via"] == "container":
        d["ref"] = "g"
        b["deps"] = [d]
        tasks = [{"id": "g", "children": [a, {"id": "a2", "effort": 120, "alloc": ["r3"]}]}, b]
    else:
        tasks = [a, {"id": "h", "deps": [d], "children": [b, {"id": "b2", "effort": 120, "alloc": ["r3"]}]}]
    return {"dur": "26m", "alap": it["mode"] != "asap", "resources": [{"id": "r1"}, {"id": "r2"}, {"id": "r3"}], "tasks": tasks}


def mixedgaps(tier):
    """the same duration TEXT used as elapsed time (gapduration) and as working time (gaplength / maxgapduration) in one project"""
    for txt in ("1d", "2d", "1w", "0.5w", "2h", "90min"):
        for form in ("len-first", "dur-first", "same-edge-max", "other-task-len"):
            for alap in (False, True):
                for L in (60, 30, 15):
                    if L != 60 and (alap or txt not in ("2h", "90min", "1d")):
                        continue
                    yield {"kind": "mixedgap", "txt": txt, "form": form, "alap": alap, "L": L}


def mixedgap_spec(it):
    g = it["txt"]
    a = {"id": "a", "effort": 120, "alloc": ["r1"]}
    x = {"id": "x", "effort": 300, "alloc": ["r2"]}
    b = {"id": "b", "effort": 60, "alloc": ["r3"]}
    tasks = [a, x, b]
    if it["form"] == "len-first":
        b["deps"] = [{"ref": "a", "gaplen": g}, {"ref": "x", "gap": g}]
    elif it["form"] == "dur-first":
        b["deps"] = [{"ref": "x", "gap": g}, {"ref": "a", "gaplen": g}]
    elif it["form"] == "same-edge-max":
        b["deps"] = [{"ref": "x", "gap": g, "maxgap": g}]
    else:
        tasks.insert(2, {"id": "c", "effort": 60, "alloc": ["r1"], "deps": [{"ref": "a", "gaplen": g}]})
        b["deps"] = [{"ref": "x", "gap": g}]
    return {"dur": "8w", "alap": it["alap"], "res_min": it.get("L", 60) if it.get("L", 60) != 60 else None,
            "resources": [{"id": "r1"}, {"id": "r2"}, {"id": "r3"}], "tasks": tasks}


def precsame(tier):
    """'precedes' towards a target (leaf or container) that already depends on ANOTHER task with the same short id as the source"""
    for gap in (None, "4h", "1d"):
        for target in ("leaf", "container"):
            for alap in (False, True):
                for onstart in ((False, True) if not alap else (False,)):
                    yield {"kind": "precsame", "gap": gap, "target": target, "alap": alap, "onstart": onstart}


def precsame_spec(it):
    d = {"ref": "release"}
    if it["gap"]:
        d["gap"] = it["gap"]
    if it["onstart"]:
        d["onstart"] = True
    leaf = lambda i, m, r, **kw: {"id": i, "effort": m, "alloc": [r], **kw}  # noqa: E731
    p1 = {"id": "phase1", "children": [leaf("review", 300, "r1", prec=[d if len(d) > 1 else "release"])]}
    p2 = {"id": "phase2", "children": [leaf("review", 60, "r2")]}
    if it["target"] == "leaf":
        rel = leaf("release", 60, "r3", deps=["phase2.review"])
    else:
        rel = {"id": "release", "deps": ["phase2.review"], "children": [leaf("notes", 60, "r3"), leaf("ship", 30, "r2")]}
    return {"dur": "4w", "alap": it["alap"], "resources": [{"id": "r1"}, {"id": "r2"}, {"id": "r3"}], "tasks": [p1, p2, rel]}


def mixchain(tier):
    """mixed directions: a forward project with a dated container (end) whose children form a chain x -> y -> z: z is the backward
    anchor (alap + end), y states no direction (pulled backward by propagation), x states alap without a date; gaps on the edges"""
    for gap in (None, "2h", "1d"):
        for dated in ("end", "none"):
            for ydir in (None, "alap"):
                for L in (60, 30):
                    yield {"kind": "mixchain", "gap": gap, "dated": dated, "ydir": ydir, "L": L}


def mixchain_spec(it):
    leaf = lambda i, m, r, **kw: {"id": i, "effort": m, "alloc": [r], **kw}  # noqa: E731
    d = lambda ref: ({"ref": ref, "gap": it["gap"]} if it["gap"] else ref)  # noqa: E731
    x = leaf("x", 240, "r1", sched="alap")
    y = leaf("y", 180, "r2", deps=[d("!x")], **({"sched": it["ydir"]} if it["ydir"] else {}))
    z = leaf("z", 120, "r1", deps=[d("!y")], sched="alap", end="2025-01-16-15:00")
    c = {"id": "c", "children": [x, y, z]}
    if it["dated"] == "end":
        c["end"] = "2025-01-17-17:00"
    return {"dur": "3w", "res_min": it["L"] if it["L"] != 60 else None, "resources": [{"id": "r1"}, {"id": "r2"}],
            "tasks": [leaf("w", 300, "r1", prio=800), c]}


def atstart(tier):
    """a predecessor whose end (on-end edge) or start (on-start edge) lies EXACTLY on the project start: a kick-off milestone without
    dependencies, or - in a project that begins at 09:00 - the first task; the edge carries a gap; own edge and edge inherited from a container"""
    for form in ("kick", "kick-inherited", "first-onstart", "first-onstart-inherited"):
        for gap in ("2d", "3h", "90min"):
            for L in (60, 30):
                yield {"kind": "atstart", "form": form, "gap": gap, "L": L}


def atstart_spec(it):
    leaf = lambda i, m, r, **kw: {"id": i, "effort": m, "alloc": [r], **kw}  # noqa: E731
    form = it["form"]
    spec = {"dur": "3w", "res_min": it["L"] if it["L"] != 60 else None, "resources": [{"id": "r1"}, {"id": "r2"}]}
    if form.startswith("kick"):
        d = {"ref": "kick", "gap": it["gap"]}
        pre = {"id": "kick", "milestone": True}
    else:
        spec["start"] = "2025-01-06-09:00"
        d = {"ref": "first", "gap": it["gap"], "onstart": True}
        pre = leaf("first", 240, "r1")
    if form.endswith("inherited"):
        succ = {"id": "g", "deps": [d], "children": [leaf("x", 120, "r2"), leaf("y", 60, "r2", deps=["!x"])]}
    else:
        succ = leaf("x", 120, "r2", deps=[d])
    spec["tasks"] = [pre, succ]
    return spec


def dupedge(tier):
    """the SAME predecessor stated twice for one task with different gaps (every edge applies): twice in one list, in two
    depends statements, as 'precedes' on the predecessor next to 'depends' on the task, twice in one precedes list"""
    for form in ("list", "twostmt", "prec+dep", "prec2"):
        for g1 in (None, "2h", "2d"):
            for g2 in (None, "2h", "2d"):
                if g1 == g2:
                    continue
                for alap in (False, True):
                    yield {"kind": "dupedge", "form": form, "g1": g1, "g2": g2, "alap": alap}


def dupedge_spec(it):
    def dep(ref, g):
        return {"ref": ref, "gap": g} if g else ref
    leaf = lambda i, m, r, **kw: {"id": i, "effort": m, "alloc": [r], **kw}  # noqa: E731
    x, f = leaf("x", 240, "r1"), leaf("f", 120, "r2")
    form = it["form"]
    if form in ("list", "twostmt"):
        f["deps"] = [dep("x", it["g1"]), dep("x", it["g2"])]
        if form == "twostmt":
            f["depsplit"] = True
    elif form == "prec+dep":
        x["prec"] = [dep("f", it["g1"])]
        f["deps"] = [dep("x", it["g2"])]
    else:
        x["prec"] = [dep("f", it["g1"]), dep("f", it["g2"])]
    return {"dur": "4w", "alap": it["alap"], "resources": [{"id": "r1"}, {"id": "r2"}], "tasks": [x, f, leaf("z", 60, "r2", prio=100)]}


def samepred(tier):
    """the SAME predecessor named at several levels of the task tree with different gaps / kinds (every edge applies)"""
    for outer_gap in ("3d", "1d", None):
        for inner_gap in ("2h", None, "2d"):
            if outer_gap == inner_gap:
                continue
            for depth in (1, 2):
                for alap in (False, True):
                    for onstart_inner in ((False, True) if not alap else (False,)):
                        yield {"kind": "samepred", "og": outer_gap, "ig": inner_gap, "depth": depth, "alap": alap, "osi": onstart_inner}


def samepred_spec(it):
    def dep(g, onstart=False):
        d = {"ref": "x"}
        if g:
            d["gap"] = g
        if onstart:
            d["onstart"] = True
        return d
    leaf = lambda i, m, r, **kw: {"id": i, "effort": m, "alloc": [r], **kw}  # noqa: E731
    e = leaf("e", 60, "r2", deps=[dep(it["ig"], it["osi"])])
    f = leaf("f", 60, "r3")
    inner = [e, f] if it["depth"] == 1 else [{"id": "inner", "deps": [dep("1d")], "children": [e]}, f]
    outer = {"id": "outer", "deps": [dep(it["og"])], "children": inner}
    return {"dur": "4w", "alap": it["alap"], "resources": [{"id": "r1"}, {"id": "r2"}, {"id": "r3"}], "tasks": [leaf("x", 120, "r1"), outer]}


def to_spec(it):
    if it.get("kind") == "samepred":
        return samepred_spec(it)
    if it.get("kind") == "precsame":
        return precsame_spec(it)
    if it.get("kind") == "dupedge":
        return dupedge_spec(it)
    if it.get("kind") == "atstart":
        return atstart_spec(it)
    if it.get("kind") == "mixchain":
        return mixchain_spec(it)
    if it.get("kind") == "mixedgap":
        return mixedgap_spec(it)
    if it.get("kind") == "longgap":
        return longgap_spec(it)
    return build(it["sk"], [tuple(e) for e in it["edges"]], tuple(it["kg"]), it["sp"], it["pin"], it["shared"], it["mode"])


def evaluate(item):
    if isinstance(item, dict) and item.get("kind") == "wide":
        from mc.props import wide
        return wide.eval_c04(item)
    spec = to_spec(item)
    deps = RefDeps(spec)
    if deps.unresolved:
        raise AssertionError(f"universe bug: unresolved reference {deps.unresolved} in {item}")
    if not deps.acyclic():
        return {"k": "", "skip": True, "v": [], "x": {"cyclic_edge_sets_skipped": 1}}
    obs = common.run_spec(spec)
    if obs.get("error"):
        return common.errored(item, obs)
    r = common.base_result(item, obs)
    v, tight, checked = oracles.c04_deps(spec, obs, 0)
    r["v"] = common.dedup(v)
    r["nt"] = tight > 0
    unsched = sum(1 for t in obs["tasks"] if t["leaf"] and not t["sched"][0])
    r["x"] = {"edges_checked": checked, "tight_edges": tight, "runs_with_unscheduled_leaves": 1 if unsched else 0}
    return r


def payload(item, clause, detail):
    from mc import render
    spec = to_spec(item)
    return {"item": item, "detail": detail, "spec": spec, "tjp": render.render(spec)}


def sample(item):
    from mc import render
    return {"item": item, "tjp": render.render(to_spec(item))}


def trait(item, clause, detail, fid):
    if fid == "D5":
        return item["pin"] in ("container", "container-early")
    if fid == "D6":
        return item["mode"] != "asap" and bool(item["kg"][1])
    return False


def run(ctx):
    st = Stats()
    explore(ctx, universe(ctx.tier), "mc.props.c04:evaluate", st, payload=payload, sample_of=sample, trait=trait)
    from mc.props import wide
    wide.sweep(ctx, st, "C04")
    common.vacuity_guard(ctx, st, frac=0.6)
    cov = st.coverage(
        "product universe: 5 tree shapes (<= 4 leaves, <= 2 container levels) x every set of <= 2 (thorough: <= 3) "
        "edges between unrelated nodes in either declaration direction that RefDeps finds acyclic x (kind, gap) x spelling (relative / "
        "absolute / precedes) x pin (none / dated container / dated leaf; backward projects: deadline on the first container) x resources x {ASAP, ALAP, ALAP with explicit sink ends}; "
        "states = distinct schedule observations; transitions = placements + bookings; non-trivial = some checked edge is tight "
        "(dependent starts within one slot of its bound)")
    return ctx.finish(cov, ASSUME + [wide.NOTE])


def replay(path):
    return common.generic_replay(path, evaluate)
