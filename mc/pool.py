"""Worker pool: forked workers that import the tree under test in a chosen extension mode.

The parent process never imports scriptplan. Each worker calls cyext.install(mode) first, then
evaluates items with a per-item wall-clock limit (SIGALRM) and an address-space limit, so a hang or a
memory bomb in the code under test is an observation ({'__timeout__': True} / {'__memory__': True}),
not a dead check.
"""
import importlib
import multiprocessing as mp
import os
import resource
import signal
import sys
import traceback

NWORKERS = int(os.environ.get("VERIF_WORKERS", "0")) or min(16, os.cpu_count() or 4)
MEM_LIMIT = 3 * 1024**3


class ItemTimeout(BaseException):
    pass


def _alarm(signum, frame):
    raise ItemTimeout()


def _init(mode, mem_limit):
    from mc import cyext

    cyext.install(mode)
    if mem_limit:
        try:
            resource.setrlimit(resource.RLIMIT_AS, (mem_limit, mem_limit))
        except (ValueError, OSError):
            pass
    signal.signal(signal.SIGALRM, _alarm)
    # import once so that the first item does not pay for it
    import scriptplan.parser.tjp_parser  # noqa: F401


_fn_cache = {}


def _resolve(fn_path):
    fn = _fn_cache.get(fn_path)
    if fn is None:
        modname, name = fn_path.split(":")
        fn = getattr(importlib.import_module(modname), name)
        _fn_cache[fn_path] = fn
    return fn


def _call(packed):
    idx, fn_path, item, timeout = packed
    fn = _resolve(fn_path)
    try:
        if timeout:
            signal.setitimer(signal.ITIMER_REAL, timeout)
        try:
            return idx, fn(item)
        finally:
            if timeout:
                signal.setitimer(signal.ITIMER_REAL, 0)
    except ItemTimeout:
        return idx, {"__timeout__": True}
    except MemoryError:
        return idx, {"__memory__": True}
    except BaseException as e:  # harness bug or unexpected escape: report, do not hide
        return idx, {"__harness_error__": f"{type(e).__name__}: {e}", "__tb__": traceback.format_exc()}


class Pool:
    def __init__(self, mode="rebuilt", workers=None, mem_limit=MEM_LIMIT):
        self.mode = mode
        self.n = workers or NWORKERS
        if mode == "rebuilt":
            from mc import cyext

            cyext.build_all()  # build once in the parent, workers only load
        ctx = mp.get_context("fork")
        self.pool = ctx.Pool(self.n, initializer=_init, initargs=(mode, mem_limit))

    def map(self, fn_path, items, timeout=30.0, chunk=None, order=None):
        """Evaluate fn(item) for every item; results in item order.

        `order` (a permutation of range(len(items))) only changes the dispatch order (VERIF_SEED)."""
        items = list(items)
        n = len(items)
        idxs = list(order) if order is not None else list(range(n))
        if chunk is None:
            chunk = max(1, min(64, n // (self.n * 8) or 1))
        out = [None] * n
        work = ((i, fn_path, items[i], timeout) for i in idxs)
        for idx, res in self.pool.imap_unordered(_call, work, chunksize=chunk):
            out[idx] = res
        return out

    def close(self):
        self.pool.close()
        self.pool.join()

    def terminate(self):
        self.pool.terminate()
        self.pool.join()

    def __enter__(self):
        return self

    def __exit__(self, *a):
        self.terminate()


def harness_errors(results):
    return [r for r in results if isinstance(r, dict) and "__harness_error__" in r]


def die_on_harness_errors(results):
    errs = harness_errors(results)
    if errs:
        sys.stdout.write("HARNESS-ERROR: " + errs[0]["__harness_error__"] + "\n" + errs[0].get("__tb__", "") + "\n")
        sys.stdout.flush()
        os._exit(3)
