"""C20 - CLI runs leave no trace and do not interfere with each other (DESIGN 4, C20).

(C) environment-deviation exploration of single runs: for every input / channel (success and failure paths)
every single injected fault (thorough: every pair) at every application file-system or stdout step; after
exit the private TMPDIR must be empty and the cwd listing unchanged, and the run must either succeed with the
fault-free stdout or fail with exit 1/2 and empty stdout.
(D) all interleavings of the file-system steps of N concurrent `plan` processes up to a preemption bound
(iterative context bounding): every process must produce exactly the bytes and exit status of its solitary
run, and the directories must be clean afterwards.
"""
import json

from mc.cli import jobs as J
from mc.cli import procsched
from mc.props import c19
from mc.run import Stats

ASSUME = [
    "fault alphabet: open for reading EACCES/EIO; open for writing and mkdir ENOSPC/EACCES; first candidate temp name already taken (EEXIST) for mkstemp/mkdtemp; stdout write EPIPE; "
    "cleanup primitives (remove, rmdir, rmtree) are not faulted - if they fail a leftover is unavoidable",
    "quick: 1 fault per run, N=2 processes with <= 1 preemption; thorough: 2 faults per run, N=2 with <= 2 preemptions, N=3 with <= 1",
    "all processes share one cwd and one TMPDIR and get the SAME pinned temp-name / token sequences, so their candidate names collide on purpose",
    "scheduling points: every step on a path below TMPDIR and every non-read step in the cwd; cwd reads and stdout writes commute with other processes' steps and run eagerly",
    "the step from N <= 3 to 'any number' is an argument (pairwise independence through kernel-arbitrated exclusive creation), not a check; signals and failing cleanup primitives are outside",
]


def single_cases():
    ins = c19.inputs()
    bad = c19.bad_inputs()
    cases = []
    for n in ("simple", "own-both", "unschedulable", "utf8"):
        cases.append((f"{n}-path-json", {"args": ["report", "in.tjp"], "files": {"in.tjp": ins[n]}}))
    cases.append(("nested-path-csv", {"args": ["report", "--csv", "in.tjp"], "files": {"in.tjp": ins["nested-reports"]}}))
    cases.append(("simple-stdin-json", {"args": ["report", "-"], "files": {}, "stdin": ins["simple"]}))
    cases.append(("own-both-stdin-csv", {"args": ["report", "--csv"], "files": {}, "stdin": ins["own-both"]}))
    odd = "plan_caf\udce9.tjp"   # a file name whose bytes are not valid UTF-8 (surrogate-escaped)
    cases.append(("odd-filename-json", {"args": ["report", odd], "files": {odd: ins["simple"]}}))
    cases.append(("odd-filename-csv", {"args": ["--quiet", "report", "--csv", odd], "files": {odd: ins["own-both"]}}))
    # the requested output file exists and --force is absent: the run refuses, the file stays as it is, nothing is left behind
    cases.append(("out-exists-json", {"args": ["report", "-o", "out.json", "in.tjp"], "files": {"in.tjp": ins["own-both"], "out.json": b"keep me\n"}}))
    cases.append(("out-exists-csv", {"args": ["report", "--csv", "--output", "out.csv", "in.tjp"], "files": {"in.tjp": ins["simple"], "out.csv": b"keep me\n"}}))
    cases.append(("out-exists-stdin", {"args": ["report", "-o", "out.json", "-"], "files": {"out.json": b"keep me\n"}, "stdin": ins["simple"]}))
    good = ins["simple"]
    for rname in ("../esc", "sub/dir/deep", "./x", "../newdir/deep/x", "a/../../up/y"):
        cases.append((f"report-name-{rname}", {"args": ["report", "in.tjp"], "files": {"in.tjp": good + f'taskreport r1 "{rname}" {{\n  formats json, csv\n  columns id\n}}\n'.encode()}}))
    for name in ("missing", "directory", "empty-file", "empty-stdin", "syntax-error", "syntax-error-stdin", "not-utf8", "illegal-report-name"):
        b = bad[name]
        cases.append((f"bad-{name}", {"args": b["args"], "files": b["files"], "stdin": b.get("stdin"), "dirs": b.get("dirs")}))
    return cases


def clean_verdict(res):
    v = []
    if res["tmp_left"]:
        v.append(("tmp-leftover", f"left in TMPDIR after exit: {res['tmp_left'][:4]}"))
    if res["cwd_changed"]:
        v.append(("cwd-changed", "the working directory listing changed"))
    return v


def run(ctx):
    pool = ctx.pool("rebuilt")
    st = Stats()
    cases = single_cases()
    base = pool.map("mc.cli.jobs:cli_job", [c for _n, c in cases], timeout=300, chunk=1)
    fault_jobs, fmeta = [], []
    for (name, job), res in zip(cases, base):
        st.evaluations += 1
        st.transitions += len(res["trace"])
        st.nontrivial.add(("base", name))
        st.states.add((res["code"], hash(res["stdout"])))
        for c, d in clean_verdict(res):
            st.by_clause[c] = st.by_clause.get(c, 0) + 1
            ctx.violation(c, name, {"detail": f"[{name}, no fault, exit {res['code']}] {d}", "job": c19._printable(job), "script": {}})
        for k, ev, alts in J.fault_points(res["trace"]):
            for lab, ans in alts:
                fj = dict(job, script={k: ans}, expect={k: [ev["ev"], ev["path"]]})
                fault_jobs.append(fj)
                fmeta.append((name, k, ev["ev"], ev["path"], lab, res))
    fres = pool.map("mc.cli.jobs:cli_job", fault_jobs, timeout=300, chunk=1, order=ctx.order(len(fault_jobs)))
    second = []
    for fj, (name, k, evn, path, lab, b), res in zip(fault_jobs, fmeta, fres):
        st.evaluations += 1
        st.transitions += len(res["trace"])
        st.nontrivial.add(("fault", name, k, lab))
        st.states.add((res["code"], hash(res["stdout"]), tuple(res["tmp_left"])))
        if res["diverged"]:
            print("HARNESS-ERROR: replayed prefix diverged", res["diverged"])
            return 3
        vs = clean_verdict(res)
        if res["code"] == 0:
            if res["stdout"] != b["stdout"] and b["code"] == 0:
                vs.append(("fault-output", f"exit 0 but stdout differs from the fault-free run ({res['stdout'][:120]!r})"))
        elif res["code"] in (1, 2):
            if res["stdout"].strip() and not (lab == "EPIPE"):
                vs.append(("fault-output", f"exit {res['code']} with non-empty stdout {res['stdout'][:120]!r}"))
        else:
            vs.append(("fault-exit", f"exit status {res['code']} (expected 0, 1 or 2); stderr {res['stderr'][-200:]!r}"))
        for c, d in vs:
            st.by_clause[c] = st.by_clause.get(c, 0) + 1
            ctx.violation(c, f"{name}-k{k}-{lab}", {"detail": f"[{name}; {lab} injected at step {k}: {evn} {path}] {d}", "job": c19._printable(fj), "script": fj["script"]})
        if ctx.tier == "thorough":
            for k2, ev2, alts2 in J.fault_points(res["trace"]):
                if k2 <= k:
                    continue
                for lab2, ans2 in alts2:
                    second.append((dict(fj, script={**fj["script"], k2: ans2}, expect={**fj["expect"], k2: [ev2["ev"], ev2["path"]]}), (name, k, lab, k2, lab2)))
    if second:
        sres = pool.map("mc.cli.jobs:cli_job", [j for j, _m in second], timeout=300, chunk=1)
        for (fj, m), res in zip(second, sres):
            st.evaluations += 1
            st.transitions += len(res["trace"])
            st.nontrivial.add(("fault2",) + m)
            for c, d in clean_verdict(res):
                st.by_clause[c] = st.by_clause.get(c, 0) + 1
                ctx.violation(c, "-".join(map(str, m)), {"detail": f"[{m}] {d}", "job": c19._printable(fj), "script": fj["script"]})
    nfault = len(fault_jobs) + len(second)
    # ---- (D) interleavings ------------------------------------------------------------------------------------
    ins = c19.inputs()
    bad = c19.bad_inputs()
    combos = {
        "same-file-twice": {"files": {"a.tjp": ins["simple"]}, "procs": [{"args": ["report", "a.tjp"]}, {"args": ["report", "a.tjp"]}]},
        "two-files-json-csv": {"files": {"a.tjp": ins["simple"], "b.tjp": ins["own-both"]}, "procs": [{"args": ["report", "a.tjp"]}, {"args": ["report", "--csv", "b.tjp"]}]},
        "good-and-syntax-error": {"files": {"a.tjp": ins["containers"], "b.tjp": bad["syntax-error"]["files"]["in.tjp"]},
                                  "procs": [{"args": ["report", "a.tjp"]}, {"args": ["report", "b.tjp"]}]},
        "path-and-stdin": {"files": {"a.tjp": ins["unschedulable"]}, "procs": [{"args": ["report", "a.tjp"]}, {"args": ["report", "-"], "stdin": ins["utf8"]}]},
        # output FILES requested with -o: names that share a stem (r.json / r.csv), and the very same name twice - whatever the runs
        # use as scratch names next to the target must not be shared between them; each file must hold what its run writes alone
        "out-files-shared-stem": {"files": {"a.tjp": ins["simple"], "b.tjp": ins["own-both"]}, "outfiles": True,
                                  "procs": [{"args": ["report", "-o", "r.json", "a.tjp"]}, {"args": ["report", "--csv", "-o", "r.csv", "b.tjp"]}]},
        "out-files-other-names": {"files": {"a.tjp": ins["simple"]}, "outfiles": True,
                                  "procs": [{"args": ["report", "-o", "one.json", "a.tjp"]}, {"args": ["report", "-o", "two.json", "-"], "stdin": ins["utf8"]}]},
        "own-reports-twice": {"files": {"a.tjp": ins["own-both"], "b.tjp": ins["nested-reports"]}, "procs": [{"args": ["report", "a.tjp"]}, {"args": ["report", "b.tjp"]}]},
    }
    plans = [(name, c, 2, 1 if ctx.tier == "quick" else 2) for name, c in combos.items()]
    if ctx.tier == "thorough":
        three = {"files": {"a.tjp": ins["simple"], "b.tjp": ins["own-both"]},
                 "procs": [{"args": ["report", "a.tjp"]}, {"args": ["report", "--csv", "b.tjp"]}, {"args": ["report", "-"], "stdin": ins["containers"]}]}
        plans.append(("three-processes", three, 3, 1))
    nexec = 0
    for name, combo, n, bound in plans:
        solo = pool.map("mc.cli.jobs:cli_job", [{"args": p["args"], "stdin": p.get("stdin"), "files": combo["files"]} for p in combo["procs"]], timeout=300, chunk=1)
        frontier = [[]]
        seen = set()
        while frontier:
            jobs = [dict(combo, prefix=pf) for pf in frontier]
            results = pool.map("mc.cli.procsched:interleave_job", jobs, timeout=600, chunk=1)
            nxt = []
            for pf, r in zip(frontier, results):
                nexec += 1
                st.evaluations += 1
                if r.get("error"):
                    print("HARNESS-ERROR:", r["error"])
                    return 3
                st.transitions += r["steps"]
                st.nontrivial.add((name, tuple(r["choices"])))
                st.states.add((name, tuple((x["code"], hash(x["stdout"])) for x in r["results"]), tuple(r["tmp_left"])))
                vs = clean_verdict(r)
                if combo.get("outfiles"):
                    # the requested files are meant to appear: compare them (names and bytes) with what the runs write alone
                    vs = [x for x in vs if x[0] != "cwd-changed"]
                    want = {}
                    for sres in solo:
                        want.update(sres.get("cwd_new") or {})
                    if r.get("cwd_new") != want:
                        vs.append(("interference", f"files written under this interleaving {sorted((r.get('cwd_new') or {}).items())} differ from the files the "
                                                   f"runs write alone {sorted(want.items())}"))
                for i, (got, exp) in enumerate(zip(r["results"], solo)):
                    if got["code"] != exp["code"] or got["stdout"] != exp["stdout"]:
                        vs.append(("interference", f"process {i} ({combo['procs'][i]['args']}): exit {got['code']} / stdout {got['stdout'][:100]!r} under this "
                                                   f"interleaving, but exit {exp['code']} / {exp['stdout'][:100]!r} when run alone; stderr {got['stderr'][-200:]!r}"))
                for c, d in vs:
                    st.by_clause[c] = st.by_clause.get(c, 0) + 1
                    ctx.violation(c, f"{name}-{''.join(map(str, r['choices']))}",
                                  {"detail": f"[{name}, schedule {r['choices']}] {d}", "combo": name, "prefix": r["choices"],
                                   "points": r["points"]})
                for s in procsched.successors(r, bound, len(pf)):
                    t = tuple(s)
                    if t not in seen:
                        seen.add(t)
                        nxt.append(s)
            frontier = nxt
    st.samples = [{"fault case": fmeta[0][:5] if fmeta else None}, {"fault case": fmeta[len(fmeta) // 2][:5] if fmeta else None},
                  {"interleaving combo": "two-files-json-csv", "procs": [p["args"] for p in combos["two-files-json-csv"]["procs"]]}]
    cov = st.coverage(
        "(C) every fault alternative at every application step of every base run (bound 1; thorough: every ordered pair) - a faulted run replays "
        "the recorded prefix and any divergence is a hard error; (D) every schedule of the scheduling points of N processes within the "
        "preemption bound (iterative context bounding, canonical enabled order); transitions = intercepted steps executed; states = distinct "
        "(exit codes, stdout, leftovers) outcomes; non-trivial = distinct (case, fault) pairs and distinct schedules",
        single_run_cases=len(cases), faulted_runs=nfault, interleaving_executions=nexec,
        interleaving_plans=[(n, k, b) for n, _c, k, b in plans])
    return ctx.finish(cov, ASSUME)


def replay(path):
    p = json.load(open(path))
    if "job" in p:
        job = p["job"]
        job["files"] = {k: v.encode() for k, v in (job.get("files") or {}).items()}
        if job.get("stdin") is not None:
            job["stdin"] = job["stdin"].encode()
        res = J.cli_job(job)
        print("exit", res["code"], "tmp_left", res["tmp_left"], "cwd_changed", res["cwd_changed"])
        print(res["stderr"].decode("utf-8", "replace")[-400:])
        return 1 if (res["tmp_left"] or res["cwd_changed"]) else 0
    print("interleaving replay: combo", p["combo"], "prefix", p["prefix"])
    return 1
