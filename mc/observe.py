"""Run the real parser + scheduler on a text inside a worker and collect a picklable observation.

Observation (dict):
  error      None | (phase, exception type name, message)   phase in {'parse', 'schedule'}
  pstart, pend (datetime), gran (s), declared_end (datetime before schedule() extended it)
  nsc        number of scenarios
  tasks      [ {id, leaf, parent, sched[sc], start[sc], end[sc], forward[sc], milestone, effort[sc], prio} ] in
             declaration order
  ledger     {sc: {resource fullId: {slot: [(task fullId, seconds), ...]}}}
  used       {sc: {resource fullId: {slot: seconds}}}
  res        [ {id, leaf, parent, eff} ]
  messages   [(kind, id, text)] emitted during the run
  stdout/stderr captured text
  trace      optional list filled by observers (see `hooks`)
"""
import contextlib
import io
import sys

_parser = None


def parser():
    global _parser
    if _parser is None:
        from scriptplan.parser.tjp_parser import ProjectFileParser

        _parser = ProjectFileParser()
    return _parser


def _messages_snapshot():
    try:
        from scriptplan.utils.message_handler import MessageHandlerInstance

        mh = MessageHandlerInstance()
        return mh, len(mh.messages)
    except Exception:
        return None, 0


def _msg_tuple(m):
    return (str(getattr(m, "type", "")), str(getattr(m, "id", "")), str(getattr(m, "message", "")))


def parse_only(text):
    """-> (project | None, error | None)"""
    try:
        p = parser().parse(text, schedule=False)
        return p, None
    except BaseException as e:  # SystemExit included: it is an observation
        if isinstance(e, (KeyboardInterrupt,)) or type(e).__name__ == "ItemTimeout":
            raise
        if isinstance(e, MemoryError):
            raise
        return None, ("parse", type(e).__module__ + "." + type(e).__name__, str(e)[:300])


def collect(project, err=None, scenarios=None):
    obs = {"error": err}
    if project is None:
        return obs
    obs["pstart"] = project["start"]
    obs["pend"] = project["end"]
    obs["gran"] = project.attributes.get("scheduleGranularity", 3600)
    nsc = project.scenarioCount()
    obs["nsc"] = nsc
    tasks = []
    for t in project.tasks:
        rec = {
            "id": t.fullId,
            "leaf": t.leaf(),
            "parent": t.parent.fullId if t.parent else None,
            "sched": [],
            "start": [],
            "end": [],
            "forward": [],
            "effort": [],
            "runaway": [],
        }
        for sc in range(nsc):
            rec["sched"].append(bool(t.get("scheduled", sc)))
            rec["start"].append(t.get("start", sc))
            rec["end"].append(t.get("end", sc))
            rec["forward"].append(t.get("forward", sc))
            rec["effort"].append(t.get("effort", sc))
            d = t.data[sc] if t.data else None
            rec["runaway"].append(bool(getattr(d, "isRunAway", False)))
        rec["milestone"] = bool(t.get("milestone", 0))
        rec["prio"] = t.get("priority", 0)
        tasks.append(rec)
    obs["tasks"] = tasks
    res = []
    ledger = {}
    used = {}
    for sc in range(nsc):
        ledger[sc] = {}
        used[sc] = {}
    for r in project.resources:
        res.append({"id": r.fullId, "leaf": r.leaf(), "parent": r.parent.fullId if r.parent else None,
                    "eff": r.get("efficiency", 0)})
        for sc in range(nsc):
            d = r.data[sc] if r.data else None
            if d is None:
                continue
            if d.slotTaskUsage:
                ledger[sc][r.fullId] = {
                    s: [(getattr(t, "fullId", str(t)), float(q)) for t, q in lst] for s, lst in d.slotTaskUsage.items()
                }
            if d.slotSecondsUsed:
                used[sc][r.fullId] = {s: float(q) for s, q in d.slotSecondsUsed.items()}
    obs["res"] = res
    obs["ledger"] = ledger
    obs["used"] = used
    # the project's own slot -> instant map for every booked slot (C01: slots must not overlap on the clock)
    booked = sorted({s for byres in ledger.values() for slots in byres.values() for s in slots})
    sd = {}
    for s in booked + [s + 1 for s in booked]:
        if s not in sd:
            try:
                sd[s] = project.idxToDate(s)
            except Exception as e:  # noqa
                sd[s] = f"EXC:{type(e).__name__}"
    obs["slotdates"] = sd
    return obs


def run_text(text, want_project=False, hooks=None, no_stderr=False):
    """Parse + schedule `text` with the real code. Never raises for errors of the code under test."""
    mh, n0 = _messages_snapshot()
    out, errs = io.StringIO(), io.StringIO()
    project = None
    err = None
    # no_stderr: the process has no standard error at all (sys.stderr is None, as when descriptor 2 is closed at start-up)
    with contextlib.redirect_stdout(out), contextlib.redirect_stderr(None if no_stderr else errs):
        project, err = parse_only(text)
        if project is not None:
            try:
                if hooks:
                    hooks(project)
                project.schedule()
            except BaseException as e:
                if type(e).__name__ == "ItemTimeout" or isinstance(e, (KeyboardInterrupt, MemoryError)):
                    raise
                err = ("schedule", type(e).__module__ + "." + type(e).__name__, str(e)[:300])
    obs = collect(project, err)
    obs["stdout"] = out.getvalue()[:2000]
    obs["stderr"] = errs.getvalue()[:2000]
    msgs = []
    if mh is not None:
        for m in mh.messages[n0:]:
            msgs.append(_msg_tuple(m))
        # keep the process-wide handler from growing without bound over 10^5 runs
        try:
            del mh.messages[n0:]
        except Exception:
            pass
    obs["messages"] = msgs
    if want_project:
        return obs, project
    return obs


def sig(obs):
    """Compact, order-stable signature of the schedule part of an observation."""
    import hashlib

    parts = [repr(obs.get("error"))]
    for t in obs.get("tasks", []):
        parts.append(f"{t['id']}|{t['sched']}|{t['start']}|{t['end']}")
    for sc, byres in sorted(obs.get("ledger", {}).items()):
        for r, slots in sorted(byres.items()):
            for s, lst in sorted(slots.items()):
                parts.append(f"{sc}{r}{s}" + ",".join(f"{t}:{round(q, 3)}" for t, q in lst))
    return hashlib.sha1("\n".join(parts).encode()).hexdigest()[:16]


# ---- run-time observers (no behaviour change) -----------------------------------------------------
MON = {"installed": False, "bookings": 0, "placements": 0, "slotwalk": 0, "on_book": None, "on_task": None}


def install_monitors():
    """Wrap ResourceScenario.book, TaskScenario.schedule and TaskScenario.scheduleSlot with counters and
    optional callbacks that are called *after* the wrapped call returns. Fails loudly if a name is gone."""
    if MON["installed"]:
        return
    from scriptplan.core.resource_scenario import ResourceScenario
    from scriptplan.core.task_scenario import TaskScenario

    orig_book = ResourceScenario.book
    orig_sched = TaskScenario.schedule
    orig_slot = TaskScenario.scheduleSlot

    def book(self, sb_idx, task, force=False):
        r = orig_book(self, sb_idx, task, force)
        MON["bookings"] += 1
        cb = MON["on_book"]
        if cb:
            cb(self, sb_idx, task, r)
        return r

    def schedule(self):
        was = self.scheduled
        r = orig_sched(self)
        if not was:
            MON["placements"] += 1
            cb = MON["on_task"]
            if cb:
                cb(self, r)
        return r

    def scheduleSlot(self):
        MON["slotwalk"] += 1
        return orig_slot(self)

    ResourceScenario.book = book
    TaskScenario.schedule = schedule
    TaskScenario.scheduleSlot = scheduleSlot
    MON["installed"] = True


def reset_counters():
    MON["bookings"] = MON["placements"] = MON["slotwalk"] = 0
