"""C12 - same input, same output, independent of history and process state (DESIGN 4, C12).

Mode B without state merging: every history of operations (parse probe i / reschedule the last project /
generate its reports / run the CLI engine on probe i) up to a depth is executed in ONE fresh interpreter;
afterwards every probe is parsed again in that interpreter and its observation (task dates of all
scenarios + generated report bytes) is compared with the observation of a fresh single-purpose process.
Plus fresh processes under several PYTHONHASHSEED values.
"""
import itertools
import json
import os
import subprocess
import sys

from mc import render
from mc.run import Stats

VERIF = os.path.dirname(os.path.dirname(os.path.dirname(os.path.abspath(__file__))))
ASSUME = [
    "9 probe texts: a task that does not fit under its container's limit, plain ASAP, project ALAP, two scenarios with limits, zoned resources, 15-min resolution with sub-slot efforts, a text that is rejected, a text with own JSON+CSV reports, a nested-container text with gaps",
    "operation alphabet: parse(i) for each probe, reschedule(last), reports(last), engine(i) = scriptplan.cli.main.run_scriptplan on probe i for three probes, abort(i) = parse+schedule of probe i killed by an injected MemoryError at its second task placement (a failing earlier call); all histories up to depth 2 (quick) / 3 (thorough), each in one fresh interpreter",
    "the clock macros ${now}/${today} and Project 'now' are excluded (they are defined to depend on the wall clock)",
    "hash seeds 0..7 (thorough: 0..31) and VERIF_SEED in fresh processes, on the probes plus four hash-order probes (tied alternatives, rotating alternative pools, a seven-member team, limited groups); pure-Python and compiled extensions are compared in C13",
]


def probes():
    from mc.props import c04

    T = lambda i, m, r="r1", **kw: {"id": i, "effort": m, "alloc": [r], **kw}  # noqa: E731
    R = [{"id": "r1"}, {"id": "r2", "eff": 0.7}]
    rep = 'taskreport rep "rep" {\n  formats json, csv\n  columns id, name, start, end, cost\n  timeformat "%Y-%m-%d %H:%M"\n}'
    ps = [
        {"resources": R, "tasks": [T("a", 90), T("b", 50, deps=["a"]), T("c", 200, "r2", prio=700)], "reports": [rep]},
        {"alap": True, "resources": R, "tasks": [T("a", 90), T("b", 50, deps=["a"]), T("c", 200, "r2")], "reports": [rep]},
        {"scenarios": [("plan", [("s2", [])])], "resources": [{"id": "r1", "limits": {"dailymax": "2h"}}, {"id": "r2"}],
         "tasks": [T("a", 300, scen=[("s2", "effort 400min")]), T("b", 100, limits={"weeklymax": "5h"}), T("c", 60, "r2", deps=["a"])], "reports": [rep]},
        {"resources": [{"id": "r1", "tz": "America/New_York", "hours": [("mon - fri", ["9:00 - 17:00"])]},
                       {"id": "r2", "tz": "Asia/Tokyo", "hours": [("mon - fri", ["22:00 - 6:00"])]}],
         "tasks": [T("a", 300), T("b", 300, "r2", deps=["a"])], "reports": [rep]},
        {"res_min": 15, "resources": [{"id": "r1", "rate": 40.0}, {"id": "r2", "eff": 0.7, "rate": 10.0}],
         "tasks": [T("a", 20), T("b", 25, deps=["a"]), {"id": "t", "effort": 50, "alloc": ["r1", "r2"]}], "reports": [rep]},
    ]
    texts = [render.render(p) for p in ps]
    texts.append('project p "P" 2025-01-06 +3w {\n  timingresolution 0min\n}\nresource r1 "r1" { }\ntask a "a" { effort 1h allocate r1 }\n')
    texts.append(render.render({"pattrs": ['timeformat "%d.%m.%Y"'], "resources": R + [{"id": "rd", "leaves": [{"k": "leaves", "type": "annual", "a": "2025-01-07", "b": "2026-01-01"}]}],
                                "tasks": [T("a", 90), T("run", 900, "rd"), T("bad", 30, deps=["!bad"])],
                                "reports": [rep, 'taskreport leafs "leafs" {\n  formats csv\n  columns id, end\n  leaftasksonly true\n}']}))
    texts.append(render.render(c04.build("S4", [("g.c", "g.h"), ("d", "g")], ("end", "90min"), "rel", "container", True, "asap")) + rep + "\n")
    # a task that does not fit under its container's limit on the first pass (a second schedule() must not place it)
    texts.append(render.render({"dur": "1w", "resources": [{"id": "r1", "rate": 30.0}],
                                "tasks": [{"id": "g", "limits": {"dailymax": "2h"}, "children": [T("a", 240, prio=900), T("x", 120, sched="alap", end="2025-01-07-17:00")]},
                                          T("z", 60, limits={"weeklymax": "1h"}), T("z2", 600, "r1", limits={"dailymax": "1h"})], "reports": [rep]}))
    # two variants of probe 0 that share its window and resolution and differ in ONE calendar input each: a cache kept across
    # projects and keyed by less than everything the calendar depends on shows when they follow probe 0 (or each other)
    # ... and they call a macro with the SAME call text but different bodies (a cache of expansions kept across parses)
    mac = lambda body: f"macro ver [2.1]\nmacro work [ {body} ]\n"  # noqa: E731
    extra = lambda eff: {"tasks": ps[0]["tasks"] + [{"id": "mw", "raw": ["${work r2}"]}]}  # noqa: E731
    # ... and their reports show values that are EQUAL as numbers but of different type: priority 500 / 700 (integers) in one,
    # costs of exactly 500.00 and 700.00 (floats) in the other (a cache of formatted cells keyed by value shows when they meet)
    rep_prio = 'taskreport rp "rp" {\n  formats json, csv\n  columns id, priority\n}'
    rep_cost = 'taskreport rc "rc" {\n  formats json, csv\n  columns id, cost\n}'
    money = {"resources": [{"id": "r1", "rate": 250.0}, {"id": "r2", "eff": 0.7, "rate": 350.0}],
             "tasks": [T("a", 120), T("b", 50, deps=["a"]), T("c", 84, "r2", prio=700), {"id": "mw", "raw": ["${work r2}"]}]}
    texts.append(mac("effort 2h allocate ${1}") + render.render({**ps[0], **extra(0), "pwh": [("mon - fri", ["8:00 - 12:00"])], "reports": [rep, rep_prio]}))
    texts.append(mac("effort 5h allocate ${1} priority 900") + render.render({**ps[0], **money, "vacations": [("2025-01-07", "2025-01-09")], "reports": [rep, rep_cost]}))
    # ... and two texts that USE the macros of the previous two without defining them: alone the first is refused (undefined macro in a
    # task body) and the second keeps the call text inside a string and has no ${projectend}; a macro table or a project end kept
    # from an earlier parse would change both
    texts.append(render.render({**ps[0], **extra(0), "reports": [rep]}))
    texts.append(render.render({"dur": "240h", "resources": R, "tasks": [T("a", 90, name="Build ${ver}"), T("b", 50, deps=["a"]), {"id": "m", "milestone": True, "raw": ["${projectend}"]}],
                                "reports": [rep]}))
    return texts


def hash_probes():
    """Projects in which an iteration over a set or dict of names would decide something: several tied alternatives,
    large teams, many equal-priority tasks, several groups and reports - parsed under every hash seed only (they are
    not part of the history alphabet). Names are chosen with no common prefix so that their hashes are unrelated."""
    names = ["dev", "zed", "amy", "bob", "kim", "uwe", "pat"]
    T = lambda i, m, r, **kw: {"id": i, "effort": m, "alloc": [r] if isinstance(r, str) else list(r), **kw}  # noqa: E731
    rep = 'taskreport rep "rep" {\n  formats json, csv\n  columns id, name, start, end\n}'
    out = []
    # primary busy, all alternatives tie
    out.append(render.render({"resources": [{"id": n} for n in names],
                              "tasks": [T("hold", 600, "dev", prio=900), {"id": "b", "effort": 300, "alloc": ["dev"], "alt": names[1:]},
                                        T("c", 200, "amy"), T("d", 200, "zed"), T("e", 200, "pat")], "reports": [rep]}))
    # two allocations with alternatives competing for the same pool, equal priorities, declared in 'random' name order
    out.append(render.render({"resources": [{"id": n} for n in names],
                              "tasks": [{"id": f"t{n}", "effort": 240, "alloc": [names[(k + 1) % 7]], "alt": [x for x in names if x != names[(k + 1) % 7]]} for k, n in enumerate(names)],
                              "reports": [rep]}))
    # a seven-member team, one member partly on leave, plus single tasks on each member with equal priority
    out.append(render.render({"resources": [{"id": n, **({"leaves": [{"k": "leaves", "type": "annual", "a": "2025-01-07"}]} if n == "kim" else {})} for n in names],
                              "tasks": [T("team", 600, names)] + [T(f"s{n}", 120, n) for n in reversed(names)], "reports": [rep]}))
    # groups with limits, members named so that group order and member order differ under different hash orders
    out.append(render.render({"resources": [{"id": "gx", "limits": {"dailymax": "6h"}, "children": [{"id": "zed"}, {"id": "amy"}]},
                                            {"id": "ga", "limits": {"weeklymax": "20h"}, "children": [{"id": "bob"}, {"id": "kim"}]}],
                              "tasks": [T("p", 900, ["zed", "amy"]), T("q", 900, ["bob", "kim"]), T("r", 500, "amy"), T("s", 500, "kim"),
                                        {"id": "m", "milestone": True, "deps": ["p", "q", "r", "s"]}], "reports": [rep]}))
    # everything named twice: alternatives listed twice, team members listed twice, the same predecessor twice, every list-like
    # statement of the body written twice (a 'seen' set or a set-based de-duplication would order by hash)
    out.append(render.render({"resources": [{"id": n} for n in names],
                              "tasks": [T("hold", 600, "dev", prio=900), {"id": "b", "effort": 300, "alloc": ["dev"], "alt": names[1:] + names[1:][::-1]},
                                        T("c", 200, "amy"), T("d", 200, "zed"), T("e", 200, "pat")], "reports": [rep]}))
    out.append(render.render({"dup2": True, "resources": [{"id": n, "leaves": [{"k": "leaves", "type": "annual", "a": f"2025-01-{7 + k:02d}"}]} for k, n in enumerate(names)],
                              "vacations": [("2025-01-10", None), ("2025-01-16", None)],
                              "tasks": [T("hold", 600, "dev", prio=900), {"id": "b", "effort": 300, "alloc": ["dev", "uwe"], "alt": names[1:]},
                                        T("team", 400, names[::-1]), T("c", 200, "amy", deps=["b", "hold", "b"]), T("d", 200, "zed"), T("e", 200, "pat")],
                              "reports": [rep]}))
    return out


ENGINE_PROBES = (0, 5, 6)
ABORT_PROBES = (0, 2)


def alphabet():
    ops = ([["parse", i] for i in range(len(probes()))] + [["resched"], ["reports"]] + [["engine", i] for i in ENGINE_PROBES]
           + [["abort", i] for i in ABORT_PROBES])
    return ops


def histories(depth):
    ops = alphabet()
    for d in range(0, depth + 1):
        for h in itertools.product(ops, repeat=d):
            if any(op[0] in ("resched", "reports") and (j == 0 or h[j - 1][0] == "abort") for j, op in enumerate(h)):
                continue  # nothing to operate on
            yield list(h)


def run_child(job):
    """job = (mode, hashseed, ops) -> parsed child result (runs in a pool worker; spawns a fresh interpreter)"""
    mode, seed, ops = job[:3]
    env = dict(os.environ, PYTHONHASHSEED=str(seed), TZ="UTC", LC_ALL="C.UTF-8", PYTHONDONTWRITEBYTECODE="1")
    if len(job) > 3:
        env.update(job[3])   # another process environment (time zone, locale)
    env["PYTHONPATH"] = VERIF
    p = subprocess.run([sys.executable, "-m", "mc.props.c12_child", mode, json.dumps(ops)], capture_output=True, text=True, env=env, cwd=VERIF,
                       timeout=600)
    for line in p.stdout.splitlines():
        if line.startswith("C12RESULT "):
            return json.loads(line[10:])
    return {"__child_failed__": (p.stdout[-500:] + p.stderr[-1500:])}


def run(ctx):
    st = Stats()
    pool = ctx.pool("rebuilt")
    depth = 2 if ctx.tier == "quick" else 3
    seeds = sorted({0, 1, 2, 3, 4, 5, 6, 7, ctx.seed}) if ctx.tier == "quick" else sorted(set(range(32)) | {ctx.seed})
    allp = probes() + hash_probes()
    # baseline: each probe alone in its own fresh process (seed 0), and under the other hash seeds
    base_jobs = [("rebuilt", s, [["parse", i]]) for s in seeds for i in range(len(allp))]
    base_res = pool.map("mc.props.c12:run_child", base_jobs, timeout=900, chunk=1)
    baseline = {}
    for (mode, s, ops), r in zip(base_jobs, base_res):
        st.evaluations += 1
        if "__child_failed__" in r:
            print("HARNESS-ERROR: child failed:", r["__child_failed__"])
            return 3
        i = ops[0][1]
        sig = r["steps"][0][2]
        st.states.add(sig)
        st.transitions += 1
        if s == 0:
            baseline[i] = sig
    for (mode, s, ops), r in zip(base_jobs, base_res):
        i = ops[0][1]
        sig = r["steps"][0][2]
        if sig != baseline[i]:
            st.by_clause["hashseed"] = st.by_clause.get("hashseed", 0) + 1
            ctx.violation("hashseed", f"probe{i}-seed{s}", {"detail": f"probe {i}: observation under PYTHONHASHSEED={s} ({sig}) differs from seed 0 ({baseline[i]})",
                                                           "ops": ops, "seed": s, "tjp": allp[i]})
        # the same probe parsed a second time in that same fresh process must also agree
        if str(i) in r["final"] and r["final"][str(i)] != baseline[i]:
            st.by_clause["repeat"] = st.by_clause.get("repeat", 0) + 1
            ctx.violation("repeat", f"probe{i}-seed{s}", {"detail": f"probe {i}: second parse in the same process gives {r['final'][str(i)]}, first {baseline[i]}", "ops": ops,
                                                         "seed": s, "tjp": probes()[i]})
    # the same probes in fresh processes whose ENVIRONMENT differs: local time zone (east and west of UTC, with DST), plain C locale
    envs = {"TZ=Asia/Tokyo": {"TZ": "Asia/Tokyo"}, "TZ=America/Los_Angeles": {"TZ": "America/Los_Angeles"}, "TZ=Europe/Berlin": {"TZ": "Europe/Berlin"},
            "LC_ALL=C": {"LC_ALL": "C", "LANG": "C", "PYTHONCOERCECLOCALE": "0", "PYTHONUTF8": "0"}}
    env_jobs = [("rebuilt", 0, [["parse", i]], e) for e in envs.values() for i in range(len(allp))]
    env_names = [n for n in envs for _i in range(len(allp))]
    for (mode, s, ops, _e), en, r in zip(env_jobs, env_names, pool.map("mc.props.c12:run_child", env_jobs, timeout=900, chunk=1)):
        st.evaluations += 1
        if "__child_failed__" in r:
            print("HARNESS-ERROR: child failed:", r["__child_failed__"])
            return 3
        i = ops[0][1]
        sig = r["steps"][0][2]
        st.transitions += 1
        st.nontrivial.add(("env", en, i))
        if sig != baseline[i]:
            st.by_clause["environment"] = st.by_clause.get("environment", 0) + 1
            ctx.violation("environment", f"probe{i}-{en}", {"detail": f"probe {i}: observation in a process with {en} ({sig}) differs from the ordinary one ({baseline[i]})",
                                                            "ops": ops, "env": en, "tjp": allp[i]})
    # histories
    hs = list(histories(depth))
    jobs = [("rebuilt", 0, h) for h in hs]
    res = pool.map("mc.props.c12:run_child", jobs, timeout=900, chunk=1, order=ctx.order(len(jobs)))
    gstates = set()
    for h, r in zip(hs, res):
        st.evaluations += 1
        if "__child_failed__" in r:
            print("HARNESS-ERROR: child failed:", r["__child_failed__"])
            return 3
        st.transitions += len(h) + len(r["final"])
        gstates.add(json.dumps(r["globals"]))
        st.nontrivial.add(json.dumps(h))
        key = render.key(h)
        for kind, i, sig in r["steps"]:
            if kind in ("parse", "resched", "reports") and sig != baseline[i]:
                st.by_clause["history-step"] = st.by_clause.get("history-step", 0) + 1
                ctx.violation("history-step", key, {"detail": f"after history {h}: step {kind} on probe {i} observed {sig}, a fresh process observes {baseline[i]}",
                                                     "ops": h, "tjp": probes()[i]})
                break
        for i_s, sig in r["final"].items():
            i = int(i_s)
            st.states.add(sig)
            if sig != baseline[i]:
                st.by_clause["history"] = st.by_clause.get("history", 0) + 1
                ctx.violation("history", key + f"-p{i}", {"detail": f"after history {h}: probe {i} observed {sig}, a fresh process observes {baseline[i]}", "ops": h,
                                                          "probe": i, "tjp": probes()[i]})
                break
    # engine determinism: the engine's output for the same probe must be the same in every history in which it ran
    eng = {}
    for h, r in zip(hs, res):
        for kind, i, sig in r["steps"]:
            if kind == "engine":
                eng.setdefault(i, {}).setdefault(sig, h)
    for i, sigs in eng.items():
        if len(sigs) > 1:
            st.by_clause["engine"] = st.by_clause.get("engine", 0) + 1
            ctx.violation("engine", f"engine-p{i}", {"detail": f"run_scriptplan on probe {i} produced different report files depending on history: {sigs}", "ops": list(sigs.values())[-1],
                                                      "tjp": probes()[i]})
    st.samples = [{"history": hs[1]}, {"history": hs[len(hs) // 2]}, {"history": hs[-1]}]
    cov = st.coverage(
        "all operation histories up to the depth (first op must create a project), each executed in one fresh interpreter, then all probes "
        "re-parsed there and compared with their single-purpose fresh-process observation (dates of all scenarios + report bytes); states = "
        "distinct observations; transitions = operations + final re-parses; non-trivial = distinct histories",
        histories=len(hs), depth=depth, probes=len(probes()), hash_seeds=seeds, distinct_process_global_states=len(gstates))
    return ctx.finish(cov, ASSUME)


def replay(path):
    p = json.load(open(path))
    r = run_child(("rebuilt", p.get("seed", 0), p["ops"]))
    b = {i: run_child(("rebuilt", 0, [["parse", i]]))["steps"][0][2] for i in range(len(probes()))}
    print(json.dumps(r, indent=1)[:2000])
    bad = [i for i, s in r["final"].items() if s != b[int(i)]]
    print("probes differing from fresh-process baseline:", bad)
    return 1 if bad else 0
