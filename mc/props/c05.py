"""C05 - daily and weekly limits are never exceeded (DESIGN 4, C05).

Mode A: limit value x resolution x placement (resource, resource group, task, container task,
resource-restricted task limit) x horizon (fits / overruns the declared end / 14 months / three year
ends incl. 53-week ISO years) x ASAP/ALAP x competing tasks. The final ledger is aggregated per calendar
day / ISO week by the checker (bookings are never enlarged afterwards, so the final ledger dominates every
intermediate one).
"""
from mc import oracles
from mc.props import common
from mc.run import Stats, explore

ASSUME = [
    "UTC projects, default calendar; calendar day / ISO week (date.isocalendar) on the project clock",
    "limit values dailymax {1h,1.5h,1.6h,2h,2.5h,3.5h,4h}, weeklymax {5h,7.5h,10h,10.6h,16h} (fractions of a slot in both rounding directions); resolutions {60,30,15} min",
    "the whole scheduled horizon is aggregated, including the part beyond the declared project end that the scheduler adds",
    "limits count booked working time of every member of a limited group / every task below a limited task (person-time)",
]
DAILY = ["1h", "1.5h", "1.6h", "2h", "2.5h", "3.5h", "4h"]
WEEKLY = ["5h", "7.5h", "10h", "10.6h", "16h"]
PLACES = ["res", "group", "task", "container", "restrict", "team", "groupteam"]
HORIZONS = {
    # name: (start, dur, effort hours for a weekly 5h / daily 2h limit)
    "fits": ("2025-01-06", "3w"),
    "overrun": ("2025-01-06", "1w"),
    "ye2024": ("2024-12-23", "4w"),
    "ye2026": ("2026-12-21", "4w"),
    "ye2020": ("2020-12-21", "4w"),
    "long": ("2025-01-06", "14m"),
}


def universe(tier):
    Ls = (60, 30, 15) if tier == "thorough" else (60, 30)
    for hz in HORIZONS:
        for kind, vals in (("dailymax", DAILY), ("weeklymax", WEEKLY)):
            for val in vals:
                for place in PLACES:
                    for L in Ls:
                        if hz == "long" and (L != 60 or kind != "weeklymax" or val != "5h" or place not in ("res", "task")):
                            continue
                        if tier == "quick" and hz in ("ye2026", "ye2020") and (L != 60 or place not in ("res", "task", "group")):
                            continue
                        for alap in (False, True):
                            if hz == "long" and alap:
                                continue
                            for comp in (0, 1):
                                yield {"hz": hz, "kind": kind, "val": val, "place": place, "L": L, "alap": alap, "comp": comp}


def _hours(val):
    return float(val[:-1])


def to_spec(it):
    start, dur = HORIZONS[it["hz"]]
    L = it["L"]
    kind, val = it["kind"], it["val"]
    per_week = _hours(val) * (5 if kind == "dailymax" else 1)
    if it["hz"] == "fits":
        eff_h = min(per_week * 1.5, 30)
    elif it["hz"] == "overrun":
        eff_h = per_week * 3
    elif it["hz"] == "long":
        eff_h = per_week * 56
    else:
        eff_h = per_week * 3.3
    eff_min = int(eff_h * 60)
    spec = {"start": start, "dur": dur, "res_min": L if L != 60 else None, "alap": it["alap"]}
    lim = {kind: val}
    r1, r2 = {"id": "r1"}, {"id": "r2"}
    x = {"id": "x", "effort": eff_min, "alloc": ["r1"]}
    tasks = [x]
    resources = [r1, r2]
    place = it["place"]
    if place == "res":
        r1["limits"] = lim
    elif place == "group":
        resources = [{"id": "grp", "limits": lim, "children": [r1, r2]}]
        x["effort"] = eff_min // 2
        tasks.append({"id": "y", "effort": eff_min // 2, "alloc": ["r2"]})
    elif place == "task":
        x["limits"] = lim
    elif place == "container":
        x["effort"] = eff_min // 2
        tasks = [{"id": "box", "limits": lim, "children": [x, {"id": "y", "effort": eff_min // 2, "alloc": ["r2"]}]}]
    elif place == "restrict":
        x["limits"] = {kind: (val, ["r1"])}
    elif place == "team":
        x["alloc"] = ["r1", "r2"]
        x["effort"] = eff_min // 2
        x["limits"] = lim
    elif place == "groupteam":
        resources = [{"id": "grp", "limits": lim, "children": [r1, r2]}]
        x["alloc"] = ["r1", "r2"]
        x["effort"] = eff_min // 2
    if it["comp"]:
        tasks.append({"id": "z", "effort": 150, "alloc": ["r1"], "prio": 300})
    spec["resources"] = resources
    spec["tasks"] = tasks
    return spec


def evaluate(item):
    spec = to_spec(item)
    obs = common.run_spec(spec)
    if obs.get("error"):
        return common.errored(item, obs)
    r = common.base_result(item, obs)
    v, binding = oracles.c05_limits(spec, obs, 0)
    r["v"] = common.dedup(v)
    r["nt"] = binding > 0
    r["x"] = {"periods_where_limit_was_reached": binding, "runs_with_extended_horizon": 1 if common.extended(obs, spec) else 0}
    return r


def payload(item, clause, detail):
    from mc import render
    spec = to_spec(item)
    return {"item": item, "detail": detail, "spec": spec, "tjp": render.render(spec)}


def sample(item):
    from mc import render
    return {"item": item, "tjp": render.render(to_spec(item))}


def trait(item, clause, detail, fid):
    if fid == "D27":
        return item["place"] == "team"
    return False


def run(ctx):
    st = Stats()
    explore(ctx, universe(ctx.tier), "mc.props.c05:evaluate", st, payload=payload, sample_of=sample, trait=trait, timeout=300)
    common.vacuity_guard(ctx, st)
    cov = st.coverage(
        "product universe: 6 horizons (fits, overruns the declared end, 14 months, year ends 2024/2026/2020) x 12 limit values x 7 placements "
        "x resolutions x ASAP/ALAP x competing task; states = distinct schedule observations; transitions = placements + bookings; "
        "non-trivial = the limit was reached in at least one day/week (it was binding)")
    return ctx.finish(cov, ASSUME)


def replay(path):
    return common.generic_replay(path, evaluate)
