"""RefCalendar - when does a resource work, recomputed from the *spec* (never from the parsed project).

Rules (TaskJuggler semantics, as the property states them):
  * hours: the resource's own `hours`, else its `shift`, else inherited from the enclosing resource
    group, else the project's `pwh` (project-level workinghours), else Mon-Fri 09:00-17:00;
  * own / shift / inherited hours are wall-clock times in the resource's IANA zone (project clock is
    UTC); project-level and default hours are on the project clock;
  * a day interval whose end is not after its start crosses midnight: `mon 22:00 - 6:00` is Monday
    22:00 -> Tuesday 06:00;
  * not working inside any project vacation, project leave, resource leave / vacation / booking;
    `a - b` is [a, b); a single date is the 24 h starting at it.
"""
from datetime import datetime, timedelta, timezone
from functools import lru_cache
from math import gcd
from zoneinfo import ZoneInfo

DAYS = ["mon", "tue", "wed", "thu", "fri", "sat", "sun"]
DEFAULT_HOURS = [("mon - fri", ["9:00 - 17:00"])]


def parse_date(s):
    if isinstance(s, datetime):
        return s
    try:
        return datetime.strptime(s, "%Y-%m-%d")
    except ValueError:
        return datetime.strptime(s, "%Y-%m-%d-%H:%M")


def parse_days(days):
    out = []
    for part in days.split(","):
        part = part.strip()
        if "-" in part:
            a, b = [x.strip() for x in part.split("-")]
            i, j = DAYS.index(a), DAYS.index(b)
            out += list(range(i, j + 1)) if i <= j else list(range(i, 7)) + list(range(0, j + 1))
        else:
            out.append(DAYS.index(part))
    return out


def _mins(t):
    h, m = t.strip().split(":")
    return int(h) * 60 + int(m)


def week_table(hours):
    """hours [(days, [ranges])] -> frozenset of (weekday, minute-of-day) intervals as a 7x1440 bitmap
    (tuple of 7 bytes objects)."""
    tab = [bytearray(1440) for _ in range(7)]
    for days, rs in hours:
        for d in parse_days(days):
            for r in rs:
                a, b = [_mins(x) for x in r.split("-")]
                if b > a:
                    for m in range(a, min(b, 1440)):
                        tab[d][m] = 1
                else:  # crosses midnight
                    for m in range(a, 1440):
                        tab[d][m] = 1
                    nd = (d + 1) % 7
                    for m in range(0, b):
                        tab[nd][m] = 1
    return tuple(bytes(t) for t in tab)


def _duration(s):
    import re

    m = re.match(r"\+?(\d+(?:\.\d+)?)(min|h|d)", s)
    n, u = float(m.group(1)), m.group(2)
    return timedelta(minutes=n) if u == "min" else timedelta(hours=n) if u == "h" else timedelta(days=n)


def interval(a, b):
    a = parse_date(a)
    if b is None:
        return (a, a + timedelta(days=1))
    if isinstance(b, str) and b.startswith("+"):
        return (a, a + _duration(b))
    return (a, parse_date(b))


class RefCalendar:
    def __init__(self, spec):
        self.spec = spec
        self.L = (spec.get("res_min") or 60) * 60
        self.pstart = parse_date(spec.get("start", "2025-01-06"))
        self.global_off = [interval(a, b) for a, b in spec.get("vacations") or []]
        self.global_off += [interval(a, b) for _t, a, b in spec.get("gleaves") or []]
        self.shifts = {s["id"]: s["hours"] for s in spec.get("shifts") or []}
        self.res = {}
        self._index(spec.get("resources") or [], None, None, None)

    def _index(self, resources, inh_hours, inh_tz, inh_leaves):
        for r in resources:
            hours = r.get("hours") or (self.shifts.get(r["shift"]) if r.get("shift") else None) or inh_hours
            tz = r.get("tz") or inh_tz
            leaves = list(inh_leaves or [])
            for lv in r.get("leaves") or []:
                if isinstance(lv, dict):
                    leaves.append(interval(lv["a"], lv.get("b")))
            own = hours is not None
            eff_hours = hours or self.spec.get("pwh") or DEFAULT_HOURS
            self.res[r["id"]] = {
                "table": week_table(eff_hours),
                "tz": ZoneInfo(tz) if (tz and own) else None,
                "off": leaves,
                "leaf": not r.get("children"),
                "step": self._step(eff_hours),
            }
            self._index(r.get("children") or [], hours, tz, leaves)

    def _step(self, hours):
        g = gcd(self.L // 60, 15)
        for _d, rs in hours:
            for r in rs:
                for x in r.split("-"):
                    g = gcd(g, _mins(x) % 60 if _mins(x) % 60 else 60)
        return max(1, g)

    def working_at(self, rid, t):
        """t: naive datetime on the project clock (UTC)."""
        r = self.res[rid]
        for a, b in self.global_off:
            if a <= t < b:
                return False
        for a, b in r["off"]:
            if a <= t < b:
                return False
        if r["tz"] is not None:
            lt = t.replace(tzinfo=timezone.utc).astimezone(r["tz"])
            return bool(r["table"][lt.weekday()][lt.hour * 60 + lt.minute])
        return bool(r["table"][t.weekday()][t.hour * 60 + t.minute])

    def slot_start(self, idx):
        return self.pstart + timedelta(seconds=idx * self.L)

    def project_working_at(self, t):
        """the PROJECT calendar (project-level workinghours or the default Mon-Fri 9-17, minus project vacations / leaves) at instant t"""
        for a, b in self.global_off:
            if a <= t < b:
                return False
        tab = self.__dict__.get("_ptable")
        if tab is None:
            tab = self.__dict__["_ptable"] = week_table(self.spec.get("pwh") or DEFAULT_HOURS)
        return bool(tab[t.weekday()][t.hour * 60 + t.minute])

    def advance_working(self, t, hours):
        """t advanced by `hours` of project working time, counted in whole slots from the slot containing t (gaplength)"""
        need = int(round(hours * 3600 / self.L))
        idx = int((t - self.pstart).total_seconds() // self.L)
        got = 0
        guard = 0
        while got < need and guard < 200000:
            if self.project_working_at(self.slot_start(idx)):
                got += 1
            idx += 1
            guard += 1
        return self.slot_start(idx)

    def working_seconds(self, rid, idx):
        """Working seconds of resource rid inside slot idx (sampled at the calendar's own grid)."""
        return _ws(self, rid, idx)

    def whole_slot_working(self, rid, idx):
        return self.working_seconds(rid, idx) >= self.L - 1e-9


def _ws(cal, rid, idx):
    cache = cal.__dict__.setdefault("_wscache", {})
    k = (rid, idx)
    v = cache.get(k)
    if v is None:
        step = cal.res[rid]["step"]
        t0 = cal.slot_start(idx)
        n = 0
        for m in range(0, cal.L // 60, step):
            if cal.working_at(rid, t0 + timedelta(minutes=m)):
                n += 1
        v = n * step * 60
        cache[k] = v
    return v
