"""C14 - shifting the calendar by whole weeks shifts the schedule by the same amount (DESIGN 4, C14).

UTC base projects x project start x week offset k: every date of the spec (project start, pins, leaves,
vacations) is moved by k weeks; the two real schedules must have the same scheduled flags and every
reported date must differ by exactly k weeks.
"""
import copy
from datetime import datetime, timedelta

from mc.props import common
from mc.run import Stats, explore

ASSUME = [
    "UTC projects only; project durations in d/w (month/year durations are not shift-invariant windows and are not generated)",
    "dates moved: project start, task start/end pins, resource leaves/vacations/bookings, project vacations and leaves (also written latest-first)",
    "starts {2024-12-02, 2024-12-23, 2025-02-24, 2026-12-14, 2027-02-22, 2024-02-19 (leap day inside the window)} and, for bases with limits, {2027-01-01 (ISO 2026-W53), 2028-01-01 (ISO 2027-W52), 2025-12-10 (window ends 12-31)}; offsets in weeks listed in coverage",
]
STARTS = ["2024-12-02", "2024-12-23", "2025-02-24", "2026-12-14", "2027-02-22", "2024-02-19",
          "2027-01-01", "2028-01-01", "2025-12-10"]   # a start in the last ISO week of the previous year; a window that ends 12-31
KS_Q = [1, 4, 5, 26, 52, 53, 104, 157]
KS_T = [1, 2, 3, 4, 5, 8, 26, 51, 52, 53, 54, 104, 105, 157, 209, 261]


def D(start, days, hm=""):
    d = datetime.strptime(start, "%Y-%m-%d") + timedelta(days=days)
    return d.strftime("%Y-%m-%d") + hm


def base_spec(b, start):
    T = lambda i, m, r="r1", **kw: {"id": i, "effort": m, "alloc": [r], **kw}  # noqa: E731
    spec = {"start": start, "dur": b["dur"], "alap": b["mode"] != "asap"}
    r1, r2 = {"id": "r1"}, {"id": "r2", "eff": 0.7}
    if b["cal"] == "night":
        spec["shifts"] = [{"id": "s1", "hours": [("mon - fri", ["22:00 - 6:00"])]}]
        r1["shift"] = "s1"
    elif b["cal"] == "split":
        r1["hours"] = [("mon, wed, fri", ["8:00 - 12:00", "13:00 - 16:00"]), ("sat", ["10:00 - 14:00"])]
    if b["lv"] == "res":
        r1["leaves"] = [{"k": "leaves", "type": "annual", "a": D(start, 2)}, {"k": "vacation", "a": D(start, 8), "b": D(start, 10)},
                        {"k": "booking", "a": D(start, 4, "-09:00"), "b": "+6h"}]
    elif b["lv"] == "proj":
        spec["vacations"] = [(D(start, 1), D(start, 3))]
        spec["gleaves"] = [("holiday", D(start, 9), None)]
    elif b["lv"] == "proj-rev":
        # the same kind of days off, the statements written latest-first (across a year end for the December starts)
        spec["vacations"] = [(D(start, 9), D(start, 11)), (D(start, 1), D(start, 3))]
        spec["gleaves"] = [("holiday", D(start, 15), None), ("holiday", D(start, 4), None)]
    elif b["lv"] == "res-rev":
        r1["leaves"] = [{"k": "vacation", "a": D(start, 9), "b": D(start, 11)}, {"k": "leaves", "type": "annual", "a": D(start, 2)},
                        {"k": "vacation", "a": D(start, 15)}, {"k": "leaves", "type": "sick", "a": D(start, 4)}]
    elif b["lv"] == "longproj":
        # a five-week shutdown: it contains a whole calendar month at some week offsets and not at others
        spec["vacations"] = [(D(start, 35), D(start, 70))]
    elif b["lv"] == "longres":
        r1["leaves"] = [{"k": "leaves", "type": "annual", "a": D(start, 35), "b": D(start, 70)}]
    if b["lim"] == "daily":
        r1["limits"] = {"dailymax": "2h"}
    elif b["lim"] == "weekly":
        r1["limits"] = {"weeklymax": "5h"}
    if b["dur"] == "9w":
        # a limit that binds early, then nothing, then pinned work weeks later (same day of month / weekday / week number)
        tasks = [T("a", 240), T("b", 120, start=D(start, 31, "-09:00")), T("c", 180, start=D(start, 28, "-09:00")), T("d", 60, start=D(start, 59, "-10:00"), prio=700),
                 T("e", 300, "r2", deps=[{"ref": "a", "gap": "30d"}])]
    elif b["dur"] == "21w":
        # gaps typed in MONTHS (30 days each - not calendar months, which would depend on the position in the year)
        tasks = [T("a", 240), T("e", 300, "r2", deps=[{"ref": "a", "gap": "1m"}]), T("f", 120, deps=[{"ref": "e", "gap": "2m"}]),
                 {"id": "m", "milestone": True, "deps": [{"ref": "a", "gap": "3m"}]}]
    elif b["dur"] == "3w":
        tasks = [T("a", 200), T("b", 90, deps=["a"]), T("c", 150, "r2", prio=700), {"id": "m", "milestone": True, "deps": ["c"]}]
        if b["pin"]:
            tasks[2]["start" if b["mode"] == "asap" else "end"] = D(start, 2, "-10:00") if b["mode"] == "asap" else D(start, 11, "-15:00")
        if b["mode"] == "alap-end":
            tasks[1]["end"] = D(start, 12, "-17:00")
    else:
        # long: work spread by the weekly limit over one or two year ends
        tasks = [T("a", b["long_effort_h"] * 60), T("b", 300, "r2", deps=[{"ref": "a", "gap": "1w"}])]
    if b.get("sc2"):
        # a second scenario with an own effort for the first task (both runs are parsed by the same parser object, one after the other)
        spec["scenarios"] = [("plan", [("delayed", [])])]
        tasks[0]["scen"] = [("delayed", f"effort {int(tasks[0]['effort'] * 1.5)}min")]
    spec["resources"] = [r1, r2] if b["lim"] != "gweekly" else [{"id": "grp", "limits": {"weeklymax": "6h"}, "children": [r1, r2]}]
    spec["tasks"] = tasks
    return spec


def bases(tier):
    out = []
    for cal in ("default", "night", "split"):
        for lv in ("none", "res", "proj", "proj-rev", "res-rev"):
            for lim in ("none", "daily", "weekly", "gweekly"):   # gweekly: the limit sits on the group above both resources
                if lv.endswith("-rev") and lim in ("daily", "gweekly"):
                    continue
                for mode in ("asap", "alap-end"):
                    for pin in (False, True):
                        out.append({"cal": cal, "lv": lv, "lim": lim, "mode": mode, "pin": pin, "dur": "3w"})
                        if lv in ("none", "proj") and lim in ("none", "weekly") and not pin:
                            out.append({"cal": cal, "lv": lv, "lim": lim, "mode": mode, "pin": pin, "dur": "3w", "sc2": True})
    return out


def long_bases():
    return [{"cal": "default", "lv": "none", "lim": "daily", "mode": "asap", "pin": False, "dur": "9w"},
            {"cal": "split", "lv": "proj", "lim": "weekly", "mode": "asap", "pin": False, "dur": "9w"},{"cal": "default", "lv": "none", "lim": "weekly", "mode": "asap", "pin": False, "dur": "60w", "long_effort_h": 270},
            {"cal": "default", "lv": "proj", "lim": "weekly", "mode": "asap", "pin": False, "dur": "110w", "long_effort_h": 520},
            {"cal": "split", "lv": "longproj", "lim": "none", "mode": "asap", "pin": False, "dur": "20w", "long_effort_h": 160},
            {"cal": "night", "lv": "longproj", "lim": "none", "mode": "asap", "pin": False, "dur": "20w", "long_effort_h": 260},
            {"cal": "default", "lv": "longproj", "lim": "none", "mode": "asap", "pin": False, "dur": "20w", "long_effort_h": 260},
            {"cal": "split", "lv": "longres", "lim": "none", "mode": "asap", "pin": False, "dur": "20w", "long_effort_h": 160},
            {"cal": "default", "lv": "none", "lim": "none", "mode": "asap", "pin": False, "dur": "21w"},
            {"cal": "night", "lv": "proj", "lim": "none", "mode": "asap", "pin": False, "dur": "21w"}]


def universe(tier):
    ks = KS_Q if tier == "quick" else KS_T
    starts = [STARTS[1], STARTS[2], STARTS[5]] if tier == "quick" else STARTS
    # ISO-year boundary starts: every base with a limit (the weekly / daily counters are what depends on the calendar position)
    for b in bases(tier):
        if b["lim"] == "none":
            continue
        for s in STARTS[6:]:
            for k in ((1, 52, 53) if tier == "quick" else (1, 2, 4, 26, 52, 53, 104)):
                yield {"b": b, "start": s, "k": k}
    for b in bases(tier):
        for s in starts:
            for k in ks:
                yield {"b": b, "start": s, "k": k}
    for b in long_bases():
        for s in (STARTS if (tier == "thorough" or b["dur"] in ("9w", "20w", "21w")) else [STARTS[0], STARTS[3]]):
            for k in ((1, 52, 53, 104) if (tier == "quick" and b["dur"] not in ("9w", "20w", "21w")) else (1, 2, 3, 4, 5, 13, 26, 52, 53, 104, 157)):
                yield {"b": b, "start": s, "k": k}


def specs(item):
    s0 = base_spec(item["b"], item["start"])
    s1 = base_spec(item["b"], D(item["start"], 7 * item["k"]))
    return s0, s1


def evaluate(item):
    s0, s1 = specs(item)
    o0 = common.run_spec(s0)
    o1 = common.run_spec(s1)
    if o0.get("error") or o1.get("error"):
        return common.errored(item, o0 if o0.get("error") else o1)
    r = common.base_result(item, o0)
    r["tr"] += o1.get("placements", 0) + o1.get("bookings", 0)
    dk = timedelta(weeks=item["k"])
    v = []
    t1 = {t["id"]: t for t in o1["tasks"]}
    if o0.get("nsc") != o1.get("nsc"):
        v.append(("shift-scenarios", f"{o0.get('nsc')} scenarios at project start {item['start']}, {o1.get('nsc')} after the shift"))
    for sc in range(min(o0.get("nsc", 1), o1.get("nsc", 1))):
        for t in o0["tasks"]:
            u = t1[t["id"]]
            if t["sched"][sc] != u["sched"][sc]:
                v.append(("shift-flag", f"{t['id']} (scenario {sc}): scheduled={t['sched'][sc]} at start {item['start']} but {u['sched'][sc]} {item['k']} weeks later"))
                continue
            if not t["sched"][sc]:
                continue
            for which in ("start", "end"):
                a, b = t[which][sc], u[which][sc]
                if a is None or b is None or b - a != dk:
                    v.append(("shift-date", f"{t['id']}.{which} (scenario {sc}): {a} at project start {item['start']}, {b} after shifting everything by {item['k']} weeks "
                                            f"(difference {b - a if a and b else None}, expected {dk})"))
    if o1["pend"] - o0["pend"] != dk:
        v.append(("shift-horizon", f"project end {o0['pend']} vs {o1['pend']}"))
    r["v"] = common.dedup(v)
    y0 = datetime.strptime(item["start"], "%Y-%m-%d")
    ends = [t["end"][0] for t in o0["tasks"] if t["sched"][0] and t["end"][0]]
    r["nt"] = bool(ends) and (max(ends).year != y0.year or (y0 + dk).year != y0.year)
    return r


def payload(item, clause, detail):
    from mc import render
    s0, s1 = specs(item)
    return {"item": item, "detail": detail, "tjp": render.render(s0), "tjp_shifted": render.render(s1)}


def sample(item):
    from mc import render
    return {"item": item, "tjp": render.render(specs(item)[0])}


def trait(item, clause, detail, fid):
    return False


def run(ctx):
    st = Stats()
    explore(ctx, universe(ctx.tier), "mc.props.c14:evaluate", st, payload=payload, sample_of=sample, trait=trait, timeout=300)
    common.vacuity_guard(ctx, st)
    cov = st.coverage(
        "108 three-week bases (calendar x leaves x limit x ASAP/ALAP-with-ends x pin) x starts x week offsets, plus 9-week bases with a daily/weekly limit that binds early and pinned work one and two months later, and 60- and 110-week bases "
        "whose work is spread by a weekly limit across one or two year ends; two real scheduler runs per pair; states = distinct base "
        "observations; transitions = placements + bookings of both runs; non-trivial = the shift or the schedule crosses a year end",
        offsets_weeks=KS_Q if ctx.tier == "quick" else KS_T)
    return ctx.finish(cov, ASSUME)


def replay(path):
    return common.generic_replay(path, evaluate)
