"""C10 - containers summarise their children and book nothing (DESIGN 4, C10).

All ordered task forests with <= 4 (thorough: 5) nodes and depth <= 3 that contain a container x leaf
kind (schedulable / self-dependent = unschedulable / on a never-working resource / milestone / allocating a resource group / group as primary or as alternative candidate) x dated
first container (none / start / start+end / end) x ASAP / ALAP.
"""
import itertools

from mc import oracles
from mc.props import common
from mc.run import Stats, explore

ASSUME = [
    "project 2025-01-06 +3w, default calendar; leaf efforts 90 min on one shared resource; 'never-working' = resource on leave for the whole window; 'cyclic' = a task depending on itself",
    "roll-up oracle at every nesting level: container scheduled <=> all children scheduled; then start = earliest child start and end = latest child end",
    "the ledger may contain leaf tasks and leaf resources only",
]
KINDS = ["ok", "cyc", "dead", "ms", "grp", "galt", "altg"]
DATED = [None, "start", "both", "end", "start+pin", "mixdir"]   # mixdir: the last leaf below the first container runs BACKWARD (alap + an early end) among forward siblings;   # start+pin: the LAST leaf below the dated container overrides the inherited start with a later one of its own


def forests(n, depth):
    """ordered forests with exactly n nodes and height <= depth; a forest is a tuple of trees, a tree is a tuple of subtrees"""
    if n == 0:
        return [()]
    if depth == 0:
        return []
    out = []
    for k in range(1, n + 1):  # size of the first tree
        for sub in forests(k - 1, depth - 1):
            for rest in forests(n - k, depth):
                out.append((sub,) + rest)
    return out


def count_leaves(f):
    return sum(1 if not t else count_leaves(t) for t in f)


def has_container(f):
    return any(t for t in f)


def universe(tier):
    nmax = 4 if tier == "quick" else 5
    for n in range(2, nmax + 1):
        for f in forests(n, 3):
            if not has_container(f):
                continue
            nl = count_leaves(f)
            for kinds in itertools.product(KINDS, repeat=nl):
                for dated in DATED:
                    for alap in (False, True):
                        if tier == "quick" and n == 4 and (dated or (alap and "grp" not in kinds)) and len(set(kinds)) > 2:
                            continue
                        if tier == "quick" and n == 4 and sum(k in ("galt", "altg") for k in kinds) > 1:
                            continue
                        yield {"f": f, "kinds": kinds, "dated": dated, "alap": alap}
                        if n <= 3 and not dated:
                            # two scenarios: everything fits in the first, the LAST leaf cannot be scheduled in the second (its start lies
                            # beyond the window there) - the containers above it are judged in each scenario on its own
                            yield {"f": f, "kinds": kinds, "dated": dated, "alap": alap, "sc2": True}
                        if count_containers(f) >= 2:
                            # the same forest with LOCAL ids that repeat under different parents (children are called by their position)
                            yield {"f": f, "kinds": kinds, "dated": dated, "alap": alap, "ids": "pos"}


def count_containers(forest):
    return sum(1 + count_containers(t) for t in forest if t)


def to_spec(it):
    kinds = list(it["kinds"])
    state = {"n": 0, "first_container": True}

    def mk(forest):
        out = []
        for pos, t in enumerate(forest):
            state["n"] += 1
            tid = f"t{state['n']}" if it.get("ids") != "pos" else f"c{pos}"
            node = {"id": tid}
            if t:
                if state["first_container"]:
                    state["first_container"] = False
                    if it["dated"] in ("start", "both", "start+pin"):
                        node["start"] = "2025-01-08-09:00"
                        state["pin_in"] = node
                    if it["dated"] in ("end", "both"):
                        node["end"] = "2025-01-17-17:00"
                node["children"] = mk(t)
            else:
                k = kinds.pop(0)
                if k == "ms":
                    node["milestone"] = True
                else:
                    node["effort"] = 90
                    node["alloc"] = ["rdead" if k == "dead" else ("team" if k in ("grp", "galt") else "r1")]
                    if k == "galt":      # a group as primary candidate, a person as alternative
                        node["alt"] = ["r1"]
                    elif k == "altg":    # a person as primary candidate (shared, so often busy), a group as alternative
                        node["alt"] = ["team"]
                    if k == "cyc":
                        node["deps"] = ["!" + tid]
            out.append(node)
        return out

    f = tuple(tuple_to(t) for t in it["f"]) if isinstance(it["f"], list) else it["f"]
    tasks = mk(f)
    if it["dated"] == "mixdir" and not it["alap"]:
        from mc.render import walk_tasks
        below = []
        for _f, c, _p in walk_tasks(tasks):   # the first container (at any depth) with two or more leaves that do work
            if c.get("children"):
                below = [t for _f2, t, _p2 in walk_tasks(c["children"]) if not t.get("children") and t.get("effort") and t.get("alloc") == ["r1"]]
                if len(below) >= 2:
                    break
                below = []
        if below:
            below[-1]["prio"] = 900
            below[-1]["sched"] = "alap"
            below[-1]["end"] = "2025-01-06-11:00"
            below[-1]["effort"] = 120   # whole slots 09:00-11:00: the forward siblings follow in later slots (no slot is shared)
            below[-1].pop("deps", None)
    if it["dated"] == "start+pin" and state.get("pin_in"):
        from mc.render import walk_tasks
        below = [t for _f, t, _p in walk_tasks(state["pin_in"]["children"]) if not t.get("children")]
        if below:
            below[-1]["start"] = "2025-01-10-11:00"
    extra = {}
    if it.get("sc2"):
        from mc.render import walk_tasks
        leaves = [t for _f, t, _p in walk_tasks(tasks) if not t.get("children")]
        leaves[-1]["scen"] = [("s2", "start 2025-06-02-09:00")]
        extra["scenarios"] = [("plan", [("s2", [])])]
    return {"alap": it["alap"], **extra,
            "resources": [{"id": "r1"}, {"id": "rdead", "leaves": [{"k": "leaves", "type": "annual", "a": "2025-01-01", "b": "2026-01-01"}]},
                          {"id": "team", "children": [{"id": "m1"}, {"id": "m2"}]}],
            "tasks": tasks}


def tuple_to(x):
    return tuple(tuple_to(y) for y in x)


def evaluate(item):
    if isinstance(item, dict) and item.get("kind") == "wide":
        from mc.props import wide
        return wide.eval_c10(item)
    spec = to_spec(item)
    obs = common.run_spec(spec)
    if obs.get("error"):
        return common.errored(item, obs)
    r = common.base_result(item, obs)
    v, ncont = oracles.c10_containers(spec, obs, 0)
    for sc in range(1, obs.get("nsc", 1)):
        v2, n2 = oracles.c10_containers(spec, obs, sc)
        v += [(c, f"[scenario {sc}] {d}") for c, d in v2]
        ncont += n2
    r["v"] = common.dedup(v)
    r["nt"] = len(set(item["kinds"])) > 1 or bool(item["dated"])
    r["x"] = {"containers_checked": ncont}
    return r


def payload(item, clause, detail):
    from mc import render
    spec = to_spec(item)
    return {"item": item, "detail": detail, "spec": spec, "tjp": render.render(spec)}


def sample(item):
    from mc import render
    return {"item": item, "tjp": render.render(to_spec(item))}


def trait(item, clause, detail, fid):
    if fid == "D23":
        return bool(item["dated"])
    return False


def run(ctx):
    st = Stats()
    explore(ctx, universe(ctx.tier), "mc.props.c10:evaluate", st, payload=payload, sample_of=sample, trait=trait)
    from mc.props import wide
    wide.sweep(ctx, st, "C10")
    common.vacuity_guard(ctx, st)
    cov = st.coverage(
        "all ordered forests with 2..4 (thorough 5) nodes, height <= 3, containing a container x leaf kinds^leaves x dated-container variant "
        "x ASAP/ALAP; states = distinct schedule observations; transitions = placements + bookings; non-trivial = mixed leaf kinds or a "
        "dated container")
    return ctx.finish(cov, ASSUME + [wide.NOTE])


def replay(path):
    return common.generic_replay(path, evaluate)
