"""C16 - scenarios are scheduled independently (DESIGN 4, C16).

Base projects x scenario trees x override sets. For each scenario s of the multi-scenario project, the
dates must equal those of the single-scenario project obtained by writing the effective values for s
(own override, else nearest ancestor scenario's, else the plain attribute) as plain attributes.
"""
import copy
import itertools

from mc.props import common
from mc.run import Stats, explore

ASSUME = [
    "scenario-specific attributes generated: effort, start, end (the ones the statement names); a scenario inherits the overrides of its ancestor scenarios",
    "efforts stay small against the horizon, so the horizon extension (computed from the first scenario only) is not what is tested",
    "project 2025-01-06 +3w, default calendar, 1 h resolution (thorough adds 30 min); bases: chains, limits on resource / group / task / container, team, alternative, dated container, and task-level ALAP anchors (own end / container deadline) behind forward-declared predecessors",
]
TREES = {
    "T1": [("plan", [])],
    "T2": [("plan", []), ("s2", [])],
    "T3": [("plan", [("s2", [])])],
    "T4": [("plan", [("s2", [("s3", [])])])],
    "T5": [("plan", [("s2", []), ("s3", [])])],
    "T6": [("plan", [("s2", [("s3", [("s4", [])])]), ("s5", [])])],
}


def scen_list(tree, parent=None, out=None):
    """[(id, parent id)] in declaration (= index) order"""
    out = out if out is not None else []
    for sid, kids in tree:
        out.append((sid, parent))
        scen_list(kids, sid, out)
    return out


def bases(tier):
    T = lambda i, m, r="r1", **kw: {"id": i, "effort": m, "alloc": [r], **kw}  # noqa: E731
    out = []
    for L in ((60,) if tier == "quick" else (60, 30)):
        for alap in (False, True):
            rs = [{"id": "r1"}, {"id": "r2"}]
            out.append({"L": L, "alap": alap, "resources": rs, "tasks": [T("a", 90), T("b", 150, deps=["a"]), T("c", 60)]})
            out.append({"L": L, "alap": alap, "resources": [{"id": "r1", "limits": {"dailymax": "2h"}}, {"id": "r2"}],
                        "tasks": [T("a", 240), T("b", 120, prio=700), T("c", 60, "r2", deps=["b"])]})
            out.append({"L": L, "alap": alap, "resources": [{"id": "grp", "limits": {"weeklymax": "5h"}, "children": rs}],
                        "tasks": [T("a", 200), T("b", 200, "r2"), T("c", 100, deps=["a"])]})
            out.append({"L": L, "alap": alap, "resources": rs,
                        "tasks": [{"id": "box", "limits": {"dailymax": "3h"}, "children": [T("a", 200), T("b", 200, "r2")]},
                                  T("c", 90, deps=["box"])]})
            out.append({"L": L, "alap": alap, "resources": rs,
                        "tasks": [T("a", 100, prio=300), T("b", 100, prio=700), {"id": "c", "effort": 120, "alloc": ["r1", "r2"], "prio": 500}]})
            out.append({"L": L, "alap": alap, "resources": rs,
                        "tasks": [T("a", 240, limits={"dailymax": "2h"}), T("b", 90, alt=["r2"], prio=300), T("c", 120, limits={"weeklymax": "1h"})]})
            out.append({"L": L, "alap": alap, "resources": rs,
                        "tasks": [T("w", 200), {"id": "g", **({"end": "2025-01-20-17:00"} if alap else {"start": "2025-01-09-09:00"}),
                                                "children": [T("x", 90, deps=["w"]), T("y", 120, "r2", deps=["!x"])]}]})
            # the bases with limits once more with every limits / allocate / depends statement written twice (a second limits block
            # on the same entity must not make the scenarios share counters)
            for b in [x for x in out[-6:] if "limits" in repr(x)]:
                out.append({**copy.deepcopy(b), "dup2": True})
            if not alap:
                # task-level backward scheduling inside a forward project: an ALAP anchor (own end) whose predecessors are not
                # declared alap themselves (the scheduler marks them backward, once per scenario)
                out.append({"L": L, "alap": False, "resources": rs,
                            "tasks": [T("a", 90), T("b", 150, deps=["a"]), T("z", 60, deps=["b"], sched="alap", end="2025-01-16-17:00"), T("c", 120, "r2")]})
                out.append({"L": L, "alap": False, "resources": rs,
                            "tasks": [T("a", 90, prec=["z"]), T("b", 150, "r2", prec=["z"]),
                                      {"id": "g", "end": "2025-01-17-12:00", "children": [T("z", 60, sched="alap"), T("y", 30, "r2", sched="alap")]}]})
            if tier == "thorough":
                out.append({"L": L, "alap": alap, "resources": [{"id": "r1", "eff": 0.7}, {"id": "r2"}],
                            "tasks": [T("a", 50), T("b", 20, deps=["a"]), T("c", 45, deps=["b"]), T("d", 30)]})
                out.append({"L": L, "alap": alap, "resources": rs,
                            "tasks": [T("a", 90, limits={"dailymax": "1h"}), T("b", 90, deps=[{"ref": "a", "gap": "1d"}])]})
    return out


def first_two_leaves(tasks, prefix=""):
    out = []
    for t in tasks:
        if t.get("children"):
            out += first_two_leaves(t["children"])
        else:
            out.append(t["id"])
    return out[:2]


def overrides_for(base):
    outs = []
    for tid in first_two_leaves(base["tasks"]):
        outs.append((tid, "effort", "x2"))
        outs.append((tid, "effort", "half"))
        if base["alap"]:
            outs.append((tid, "end", "2025-01-15-17:00"))
            outs.append((tid, "end", "2024-12-20-17:00"))     # before the project start: unschedulable in that scenario only
        else:
            outs.append((tid, "start", "2025-01-08-10:00"))
            outs.append((tid, "start", "2025-06-02-09:00"))   # beyond the project end: unschedulable in that scenario only
            outs.append((tid, "start", "2025-01-06-09:00"))   # a pin EARLIER than the task's dependency bound (a pin overrides it, a bound would not)
    # a date typed on a CONTAINER for one scenario only: its children receive it by inheritance in that scenario (and below)
    cont = next((t["id"] for t in base["tasks"] if t.get("children")), None)
    if cont:
        outs.append((cont, "end", "2025-01-16-17:00") if base["alap"] else (cont, "start", "2025-01-09-10:00"))
    return outs


def universe(tier):
    maxo = 1 if tier == "quick" else 2
    for bi, base in enumerate(bases(tier)):
        ovs = overrides_for(base)
        for tk, tree in TREES.items():
            sids = [s for s, _p in scen_list(tree)]
            atoms = [(sid,) + o for sid in sids for o in ovs]
            for k in range(0, maxo + 1):
                for combo in itertools.combinations(atoms, k):
                    # at most one override per (scenario, task, attribute)
                    if len({(c[0], c[1], c[2]) for c in combo}) < len(combo):
                        continue
                    yield {"bi": bi, "tier": tier, "tree": tk, "ov": combo}
            # an override in a NESTED scenario that is large against the window (80 h): the scenarios that do not see it - the top
            # scenario and the siblings - must not move (the scenarios that do see it are not compared: the window is sized from
            # the first scenario only, see the assumptions)
            for sid in sids[1:]:
                for tid in first_two_leaves(base["tasks"]):
                    yield {"bi": bi, "tier": tier, "tree": tk, "ov": ((sid, tid, "effort", "big"),)}
            # the same attribute of one task overridden in TWO scenarios, the statements written in either order (descendants that have
            # no value of their own take the nearest ancestor's, whichever statement comes first in the body)
            if len(sids) >= 3:
                tid = first_two_leaves(base["tasks"])[0]
                # ("same": the nested scenario states exactly the task's plain value again, while its parent scenario overrides it)
                pairs = [("effort", "x2", "half"), ("effort", "x2", "same")] + ([("end", "2025-01-15-17:00", "2025-01-14-12:00")] if base["alap"] else [("start", "2025-01-08-10:00", "2025-01-09-13:00")])
                for attr, v1, v2 in pairs:
                    for sa, sb in itertools.permutations(sids, 2):
                        yield {"bi": bi, "tier": tier, "tree": tk, "ov": ((sa, tid, attr, v1), (sb, tid, attr, v2))}


def find_task(tasks, tid):
    for t in tasks:
        if t["id"] == tid:
            return t
        if t.get("children"):
            r = find_task(t["children"], tid)
            if r:
                return r
    return None


def value_of(t, attr, how):
    if attr == "effort":
        if how == "big":
            return 4800
        if how == "same":
            return t["effort"]
        return t["effort"] * 2 if how == "x2" else max(10, t["effort"] // 2)
    return how


def multi_spec(item):
    base = copy.deepcopy(bases(item["tier"])[item["bi"]])
    spec = {"res_min": base["L"] if base["L"] != 60 else None, "alap": base["alap"], "resources": base["resources"], "tasks": base["tasks"],
            "scenarios": TREES[item["tree"]], "dup2": base.get("dup2")}
    for sid, tid, attr, how in item["ov"]:
        t = find_task(spec["tasks"], tid)
        v = value_of(t, attr, how)
        t.setdefault("scen", []).append((sid, f"effort {v}min" if attr == "effort" else f"{attr} {v}"))
    return spec


def single_spec(item, sid):
    base = copy.deepcopy(bases(item["tier"])[item["bi"]])
    spec = {"res_min": base["L"] if base["L"] != 60 else None, "alap": base["alap"], "resources": base["resources"], "tasks": base["tasks"], "dup2": base.get("dup2")}
    parent = dict(scen_list(TREES[item["tree"]]))
    chain = []
    s = sid
    while s is not None:
        chain.append(s)
        s = parent[s]
    # effective value: nearest scenario in the chain (self first) carrying an override
    eff = {}
    for s in reversed(chain):  # ancestors first, self last -> self wins
        for osid, tid, attr, how in item["ov"]:
            if osid == s:
                eff[(tid, attr)] = how
    orig = copy.deepcopy(spec["tasks"])
    for (tid, attr), how in eff.items():
        t = find_task(spec["tasks"], tid)
        t[attr] = value_of(find_task(orig, tid), attr, how)
    return spec


def dates(obs, sc):
    return {t["id"]: (t["sched"][sc], t["start"][sc] if t["sched"][sc] else None, t["end"][sc] if t["sched"][sc] else None) for t in obs["tasks"]}


def evaluate(item):
    ms = multi_spec(item)
    om = common.run_spec(ms)
    if om.get("error"):
        return common.errored(item, om)
    r = common.base_result(item, om)
    v = []
    sl = scen_list(TREES[item["tree"]])
    if om["nsc"] != len(sl):
        v.append(("scenario-count", f"{om['nsc']} scenarios in the project, {len(sl)} declared"))
        r["v"] = v
        return r
    parent = dict(sl)
    for idx, (sid, _par) in enumerate(sl):
        chain, s_ = [], sid
        while s_ is not None:
            chain.append(s_)
            s_ = parent[s_]
        if any(o[0] in chain and o[3] == "big" for o in item["ov"]):
            continue   # this scenario sees the large override (window sizing, not independence, decides there)
        ss = single_spec(item, sid)
        os_ = common.run_spec(ss)
        r["tr"] += os_.get("placements", 0) + os_.get("bookings", 0)
        if os_.get("error"):
            return common.errored(item, os_)
        a, b = dates(om, idx), dates(os_, 0)
        for tid in a:
            if a[tid] != b[tid]:
                v.append(("scenario-differs", f"scenario {sid} (index {idx}), task {tid}: multi-scenario run {a[tid]} vs single-scenario run of the "
                                              f"effective text {b[tid]}"))
    r["v"] = common.dedup(v)
    r["nt"] = len(sl) > 1 and bool(item["ov"])
    r["x"] = {"scenario_comparisons": len(sl)}
    return r


def payload(item, clause, detail):
    from mc import render
    return {"item": item, "detail": detail, "tjp": render.render(multi_spec(item)),
            "single_texts": {sid: render.render(single_spec(item, sid)) for sid, _p in scen_list(TREES[item["tree"]])}}


def sample(item):
    from mc import render
    return {"item": item, "tjp": render.render(multi_spec(item))}


def trait(item, clause, detail, fid):
    return False


def run(ctx):
    st = Stats()
    explore(ctx, universe(ctx.tier), "mc.props.c16:evaluate", st, payload=payload, sample_of=sample, trait=trait)
    common.vacuity_guard(ctx, st)
    cov = st.coverage(
        "base projects (limits on resource / group / container task, contention, team, priorities; ASAP and ALAP) x 5 scenario trees x all "
        "sets of <= 1 (thorough <= 2) overrides of effort/start/end on the first two leaves attached to any scenario; one multi-scenario run "
        "plus one single-scenario run per scenario; states = distinct multi-scenario observations; transitions = placements + bookings of all "
        "runs; non-trivial = more than one scenario and at least one override")
    return ctx.finish(cov, ASSUME)


def replay(path):
    return common.generic_replay(path, evaluate)
