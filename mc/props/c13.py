"""C13 - compiled fast paths and pure-Python fallbacks are equivalent (DESIGN 4, C13).

The same complete argument grids (mc/grids.py) and the same project universes are evaluated twice: with
the extension modules rebuilt from the tree's .pyx, and with the extensions blocked so that the
pure-Python fallbacks run. Digests of all returned values / all schedule observations must be identical.

The in-tree .so files are *not* used: they are untracked build output and may be stale with respect to the
.pyx under test (which would raise an alarm on a tree where the property holds).
"""
import itertools

from mc import grids
from mc.props import common
from mc.run import Stats

ASSUME = [
    "'enabled' means the extensions compiled from the tree's current .pyx (cython 3.3 + gcc, cached by source hash); the stale-prone in-tree .so files are not consulted",
    "function grids: every minute of the week x 40 interval sets (WorkingHours.onShift, get_daily_hours); every index -3..size+3 and every minute +-1 s of the window x resolutions x offsets (Scoreboard/Project conversions, exceptions compared too); every 0/1 pattern up to length 9 (thorough 11) x window x minimum (collectIntervals)",
    "whole projects: the sweeper universe of C02, the n=2 universe of C07 and the operation histories of C01 (depth <= 2; thorough: full quick universes of C01 and C07)",
    "indices beyond 2^31 seconds are outside the grid",
]


def sig_c02(item):
    from mc.props import c02
    from mc import observe
    return observe.sig(common.run_spec(c02.to_spec(item)))


def sig_c07(item):
    from mc.props import c07
    from mc import observe
    return observe.sig(common.run_spec(c07.to_spec(item)))


def sig_c01(item):
    from mc.props import c01
    from mc import observe
    return observe.sig(common.run_spec(c01.to_spec(item)))


def sig_wide(item):
    from mc.props import wide
    from mc import observe
    return observe.sig(common.run_spec(wide.to_spec(item)))


def project_items(tier):
    from mc.props import c01, c02, c07

    yield "mc.props.c13:sig_c02", "C02 sweepers", list(c02.universe("quick"))
    c7 = [it for it in c07.universe("quick") if it["n"] == 2 or tier == "thorough"]
    yield "mc.props.c13:sig_c07", "C07 universe", c7
    h = [it for it in c01.histories("quick") if len(it["hist"]) <= 2 or tier == "thorough"]
    if tier == "thorough":
        h += list(c01.projects("quick"))
    yield "mc.props.c13:sig_c01", "C01 histories", h
    from mc.props import wide
    # larger projects: every single toggle of the wide universe (thorough: every pair)
    yield "mc.props.c13:sig_wide", "wide universe", [it for it in wide.universe("quick") if len(it["t"]) <= (1 if tier == "quick" else 2)]


def run(ctx):
    from mc.pool import die_on_harness_errors

    st = Stats()
    ci_cfgs = [(n, 60) for n in (range(1, 10) if ctx.tier == "quick" else range(1, 12))]
    jobs = [("mc.grids:wh_grid", list(range(len(grids.ALL_INTERVAL_SETS)))),
            ("mc.grids:sb_grid", grids.sb_configs(ctx.tier)),
            ("mc.grids:ci_grid", ci_cfgs),
            ("mc.grids:far_grid", [60, 15]),
            ("mc.grids:rt_grid", [(a, min(a + 7, 120)) for a in range(1, 121, 8)])]
    modes = ("rebuilt", "blocked")
    # sanity: the two pools really run different implementations
    flags = {}
    for mode in modes:
        flags[mode] = ctx.pool(mode).map("mc.props.c13:which_impl", [0], timeout=60)[0]
    if not all(flags["rebuilt"].values()) or any(flags["blocked"].values()):
        print(f"HARNESS-ERROR: implementation selection failed: {flags}")
        return 3
    # function level
    for fn, cfgs in jobs:
        res = {}
        for mode in modes:
            res[mode] = ctx.pool(mode).map(fn, cfgs, timeout=900, chunk=1)
            die_on_harness_errors(res[mode])
        for cfg, a, b in zip(cfgs, res["rebuilt"], res["blocked"]):
            st.evaluations += 1
            st.nontrivial.add((fn, repr(cfg)))
            if "__timeout__" in a or "__timeout__" in b:
                ctx.violation("hang", f"{fn}:{cfg}", {"detail": "grid evaluation exceeded its limit", "fn": fn, "cfg": cfg})
                continue
            st.transitions += a["calls"] + b["calls"]
            st.states.add(a["digest"])
            st.states.add(b["digest"])
            if a["digest"] != b["digest"]:
                detail = f"{fn} cfg={cfg}: digests of all returned values differ between compiled and pure-Python"
                if "bits" in a:
                    i = next((i for i, (x, y) in enumerate(zip(a["bits"], b["bits"])) if x != y), None)
                    if i is not None:
                        detail += f"; first difference at minute {i} of the week (weekday {i // 1440}, {i % 1440 // 60:02d}:{i % 60:02d}): compiled={a['bits'][i]} python={b['bits'][i]} for hours {grids.ALL_INTERVAL_SETS[cfg]}"
                    elif a["daily"] != b["daily"]:
                        detail += f"; get_daily_hours differ: {a['daily']} vs {b['daily']}"
                else:
                    detail += f"; law violations compiled={a.get('viol_counts')} python={b.get('viol_counts')}"
                st.by_clause["function-differs"] = st.by_clause.get("function-differs", 0) + 1
                ctx.violation("function-differs", f"{fn}:{cfg}", {"detail": detail, "fn": fn, "cfg": cfg})
    fcalls = st.transitions
    # whole projects
    nproj = 0
    for fn, label, items in project_items(ctx.tier):
        res = {}
        for mode in modes:
            res[mode] = ctx.pool(mode).map(fn, items, timeout=120)
            die_on_harness_errors(res[mode])
        for it, a, b in zip(items, res["rebuilt"], res["blocked"]):
            st.evaluations += 1
            nproj += 1
            st.transitions += 2
            if isinstance(a, dict) or isinstance(b, dict):
                ctx.violation("hang", f"{label}:{common.render.key(it)}", {"detail": f"{a} / {b}", "fn": fn, "item": it})
                continue
            st.states.add(a)
            st.nontrivial.add((label, a))
            if a != b:
                st.by_clause["project-differs"] = st.by_clause.get("project-differs", 0) + 1
                ctx.violation("project-differs", f"{label}:{common.render.key(it)}",
                              {"detail": f"{label}: schedule observation differs between compiled ({a}) and pure-Python ({b}) extensions", "fn": fn, "item": it})
    st.samples = [{"function grid": "mc.grids:wh_grid", "cfg": 4, "hours": grids.ALL_INTERVAL_SETS[4]},
                  {"function grid": "mc.grids:sb_grid", "cfg (L_min, offset, span_min)": grids.sb_configs(ctx.tier)[0]},
                  {"project universe": "C02 sweepers / C07 n=2 / C01 histories", "projects": nproj}]
    cov = st.coverage(
        "every configuration of the function grids and every project of the listed universes evaluated in both implementations; "
        "transitions = real function calls (function level) + scheduler runs; states = distinct digests / schedule observations; "
        "non-trivial = distinct configurations and distinct project observations",
        function_calls=fcalls, projects_compared=nproj, use_cython_flags=flags)
    return ctx.finish(cov, ASSUME)


def which_impl(_):
    from mc import cyext
    return cyext.active_flags()


def replay(path):
    import json
    import importlib
    from mc import cyext
    p = json.load(open(path))
    print("replay: run both implementations in separate processes:")
    import subprocess, sys, os
    outs = {}
    for mode in ("rebuilt", "blocked"):
        code = ("import sys,json;sys.path.insert(0,'/verif');from mc import cyext;cyext.install(%r);import importlib;"
                "m,f=%r.split(':');fn=getattr(importlib.import_module(m),f);r=fn(json.loads(%r));"
                "print(r if isinstance(r,str) else r.get('digest'))") % (mode, p["fn"], json.dumps(p.get("item", p.get("cfg"))))
        outs[mode] = subprocess.run([sys.executable, "-c", code], capture_output=True, text=True, env=dict(os.environ, PYTHONHASHSEED="0")).stdout.strip()
    print(outs)
    return 1 if outs["rebuilt"] != outs["blocked"] else 0
