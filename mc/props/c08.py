"""C08 - no eligible working time is left idle (earliest / latest fit) (DESIGN 4, C08).

Calendars of C02 x small task patterns (sub-slot efforts, contention, efficiencies), ASAP, project ALAP
and task-level ALAP with explicit end. Slot-granular oracle against RefCalendar + the final ledger.
"""
from mc import oracles
from mc.props import c02, common
from mc.ref.calendar import RefCalendar
from mc.run import Stats, explore

ASSUME = c02.ASSUME[:4] + [
    "slot-granular reading: a slot is 'eligible' when it is working for its whole length for every allocated resource and carries no booking at all in the final ledger (bookings are never withdrawn, so such a slot was free when the task walked past it)",
    "only tasks on resources without limits (own, group, task) and without alternatives are judged",
    "ASAP bound recomputed from observed predecessor dates; ALAP deadline = own/inherited end, else earliest successor start minus gap, else observed project end",
]

PATTERNS = ["one20", "one90", "one600", "chain", "indep", "fork", "prio", "team", "gapchain", "nestends", "mid10", "mid25", "mid40", "mid50", "gaplen2h", "gaplen1d", "cgap", "mixgap", "mixgaplen", "mixonstart", "twosucc-a", "twosucc-b", "mixpin"]


def universe(tier):
    zones = (None, "America/New_York") if tier == "quick" else (None, "America/New_York", "Asia/Tokyo", "Europe/London")
    Ls = (60, 30) if tier == "quick" else (60, 30, 15)
    for hk in c02.HOURS:
        for days in c02.DAYS:
            for z in zones:
                for L in Ls:
                    for pat in PATTERNS:
                        for mode in ("asap", "palap", "talap", "talap-mid"):
                            if pat in ("mixonstart", "mixpin") and mode != "asap":
                                continue   # on-start edges in backward mode are not claimed (C04's quantifier); mixpin has its own directions
                            for eff in ((1.0,) if tier == "quick" and pat not in ("one90", "chain") else (1.0, 0.7)):
                                yield {"hk": hk, "days": days, "z": z, "L": L, "pat": pat, "mode": mode, "eff": eff}
    # gaplength at resolutions whose slot is not a binary fraction of an hour (sums of 1/6, 1/3, 1/12, 1/10, 1/60 h)
    for L in (10, 20, 5, 6, 1):
        for g in ("1h", "50min", "2h", "30min", "6min", "7min"):
            for mode in ("asap",):
                yield {"hk": None, "days": None, "z": None, "L": L, "pat": "gaplen" + g, "mode": mode, "eff": 1.0}
    # default calendar + leaves
    for lv in c02.LEAVES:
        for pat in PATTERNS:
            for mode in ("asap", "palap", "talap", "talap-mid"):
                if pat in ("mixonstart", "mixpin") and mode != "asap":
                    continue
                yield {"hk": None, "days": None, "z": None, "L": 60, "pat": pat, "mode": mode, "eff": 1.0, "lv": lv}


def to_spec(it):
    L = it["L"]
    start = "2025-03-03" if it["z"] else "2025-01-06"
    spec = {"start": start, "dur": "4w", "res_min": L if L != 60 else None, "alap": it["mode"] == "palap"}
    r1 = {"id": "r1", "eff": it["eff"]}
    r2 = {"id": "r2", "eff": it["eff"]}
    if it["hk"]:
        for r in (r1, r2):
            r["hours"] = [(it["days"], c02.HOURS[it["hk"]])]
            if it["z"]:
                r["tz"] = it["z"]
    lv = c02.LEAVES.get(it.get("lv") or "none")
    if lv.get("res"):
        r1["leaves"] = [{**x, "a": c02._subst(start, x["a"]), "b": c02._subst(start, x.get("b"))} for x in lv["res"]]
    if lv.get("vac"):
        spec["vacations"] = [(c02._subst(start, a), c02._subst(start, b)) for a, b in lv["vac"]]
    if lv.get("gl"):
        spec["gleaves"] = [(t, c02._subst(start, a), c02._subst(start, b)) for t, a, b in lv["gl"]]
    pat = it["pat"]
    T = lambda i, m, **kw: {"id": i, "effort": m, "alloc": ["r1"], **kw}  # noqa: E731
    if pat == "one20":
        tasks = [T("a", 20)]
    elif pat == "one90":
        tasks = [T("a", 90)]
    elif pat == "one600":
        tasks = [T("a", 600)]
    elif pat == "chain":
        tasks = [T("a", 90), T("b", 150, deps=["a"]), T("c", 40, deps=["b"])]
    elif pat == "indep":
        tasks = [T("a", 40), T("b", 90), T("c", 150)]
    elif pat == "fork":
        tasks = [T("a", 90), T("b", 60, deps=["a"]), T("c", 150, deps=["a"])]
    elif pat == "prio":
        tasks = [T("a", 150, prio=300), T("b", 90, prio=700), T("c", 20, prio=500)]
    elif pat.startswith("mid"):
        # the dependency bound lies m minutes past the hour (a predecessor of m minutes on the other resource): inside a slot, and for
        # sub-hour resolutions not in the first slot of its clock hour; a lower-priority task on the same resource follows
        tasks = [{"id": "p", "effort": int(pat[3:]), "alloc": ["r2"]}, T("a", 90, deps=["p"]), T("low", 60, prio=300)]
    elif pat == "mixpin":
        # mixed directions: a backward anchor (alap + end), a task pulled backward by propagation, and a FORWARD-pinned task (asap +
        # start) two dependency hops upstream that must stay forward; whole-slot efforts
        tasks = [T("other", 180), T("prep", 240, sched="asap", start=c02._day(start, 1, "-09:00")), T("build", 240, deps=["prep"]),
                 {"id": "ship", "effort": 240, "alloc": ["r2"], "sched": "alap", "end": c02._day(start, 11, "-17:00"), "deps": ["build"]}]
    elif pat.startswith("twosucc"):
        # one task with TWO successors, only one of the edges carries a gap and the other successor is the binding one (backward: the
        # deadline is the minimum over successors of start minus that successor's own gap); -a: the gapped successor is declared first
        s1 = {"id": "s1", "effort": 60, "alloc": ["r2"], "deps": [{"ref": "t", "gap": "2h"}]}
        s2 = {"id": "s2", "effort": 420, "alloc": ["r2"], "deps": ["t"]}
        tasks = [T("t", 150)] + ([s1, s2] if pat.endswith("-a") else [s2, s1])
    elif pat.startswith("mix"):
        # an entry WITH options written before a plain entry of the same list, the plain one binding (its predecessor ends later)
        opt = {"mixgap": {"gap": "1h"}, "mixgaplen": {"gaplen": "1h"}, "mixonstart": {"onstart": True}}[pat]
        tasks = [{"id": "p", "effort": 60, "alloc": ["r2"]}, T("q", 180), {"id": "c", "effort": 90, "alloc": ["r2"], "deps": [{"ref": "p", **opt}, "q"]},
                 T("low", 60, prio=300)]
    elif pat.startswith("gaplen"):
        # gaplength = working time of the PROJECT calendar after the predecessor's end; the task's own resource may have another calendar
        tasks = [{"id": "p", "effort": 120, "alloc": ["r2"]}, T("a", 90, deps=[{"ref": "p", "gaplen": pat[6:]}]), T("low", 60, prio=300)]
    elif pat == "cgap":
        # the gapped edge sits on a CONTAINER; the successor leaf below it has a depends list of its own (so it does not simply
        # inherit a copy of the container's list); one more level in between
        tasks = [T("x", 90), {"id": "v", "effort": 30, "alloc": ["r2"]}, {"id": "g", "deps": [{"ref": "x", "gap": "5h"}], "children": [
            {"id": "h", "children": [{"id": "w", "effort": 60, "alloc": ["r2"], "deps": ["v"]}, T("y", 120, deps=["!w"])]}]}]
    elif pat == "gapchain":
        # successor on another resource, gap that is not a multiple of the slot: the predecessor's deadline falls inside a slot
        tasks = [T("a", 150), {"id": "b", "effort": 90, "alloc": ["r2"], "deps": [{"ref": "a", "gap": "90min" if L == 60 else "50min"}]}]
    elif pat == "nestends":
        # outer dated container > inner dated container with an EARLIER end > chain; the inner end is the leaves' deadline
        inner = {"id": "i", "end": c02._day(start, 9, "-12:00"), "children": [T("a", 150), T("b", 90, deps=["!a"])]}
        tasks = [{"id": "o", "end": c02._day(start, 11, "-17:00"), "children": [inner, T("c", 60)]}]
    else:
        tasks = [T("a", 40), {"id": "b", "effort": 150, "alloc": ["r1", "r2"]}, T("c", 90, deps=["b"])]
    if pat == "nestends":
        if it["mode"] in ("talap", "talap-mid"):
            for t in (tasks[0]["children"][0]["children"] + [tasks[0]["children"][1]]):
                t["sched"] = "alap"
    elif it["mode"] in ("talap", "talap-mid"):
        # task-level ALAP anchored by explicit ends on the sinks
        referenced = {d if isinstance(d, str) else d["ref"] for t in tasks for d in t.get("deps", [])}
        for t in tasks:
            t["sched"] = "alap"
            if t["id"] not in referenced:
                t["end"] = c02._day(start, 11, "-12:00" if it["mode"] == "talap" else ("-15:30" if L == 60 else "-15:20"))
    spec["resources"] = [r1, r2]
    spec["tasks"] = tasks
    return spec


def evaluate(item):
    if isinstance(item, dict) and item.get("kind") == "wide":
        from mc.props import wide
        return wide.eval_c08(item)
    spec = to_spec(item)
    obs = common.run_spec(spec)
    if obs.get("error"):
        return common.errored(item, obs)
    r = common.base_result(item, obs)
    cal = RefCalendar(spec)
    v, spans = oracles.c08_idle(spec, obs, 0, cal)
    r["v"] = common.dedup(v)
    r["nt"] = spans > 0
    r["x"] = {"task_spans_with_2plus_slots": spans, "tasks_scheduled": sum(1 for t in obs["tasks"] if t["leaf"] and t["sched"][0])}
    return r


def payload(item, clause, detail):
    from mc import render
    spec = to_spec(item)
    return {"item": item, "detail": detail, "spec": spec, "tjp": render.render(spec)}


def sample(item):
    from mc import render
    return {"item": item, "tjp": render.render(to_spec(item))}


def run(ctx):
    st = Stats()
    explore(ctx, universe(ctx.tier), "mc.props.c08:evaluate", st, payload=payload, sample_of=sample, timeout=120)
    from mc.props import wide
    wide.sweep(ctx, st, "C08")
    common.vacuity_guard(ctx, st)
    cov = st.coverage(
        "product universe: (6 hour sets x 6 day lists x zones x resolutions) + default calendar with 9 leave layouts, x 10 task patterns "
        "(single sub-slot / multi-day tasks, chains, forks, priorities, a team) x {ASAP, project ALAP, task ALAP with explicit slot-aligned ends, task ALAP with ends inside a slot} x "
        "efficiency; states = distinct schedule observations; transitions = placements + bookings; non-trivial = some judged task has "
        ">= 2 slots between its bound (deadline) and its last (first) booked slot")
    return ctx.finish(cov, ASSUME + [wide.NOTE])


def replay(path):
    return common.generic_replay(path, evaluate)
