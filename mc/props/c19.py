"""C19 - the plan CLI honours its output contract (DESIGN 4, C19).

The real `plan` entry point is run as a subprocess under mc/cli/launcher.py for every input x channel x
format; for each good run every permutation of every directory listing the command performs is explored
(environment-deviation bound 1). stdout / exit status are compared with the contract; expected rows come
from the API (real parser + scheduler in a worker).
"""
import csv
import hashlib
import io
import json

from mc import render
from mc.cli import jobs as J
from mc.run import Stats

ASSUME = [
    "inputs: simple, containers, own JSON report, own CSV report, both, nested reports, unschedulable tasks, CRLF line ends, UTF-8 names, one task per day across the 2024/25 and 2026/27 year ends; channels: path, '-', no argument; formats json / --csv",
    "bad inputs: missing file, directory, empty file, whitespace only, syntax error, not UTF-8, report with an illegal file name, empty stdin",
    "deviations explored: every permutation of every non-cleanup directory listing with >= 2 entries (one deviation per run); faults are C20's business",
    "expected rows: every task in declaration order, id/start/end with dates in %Y-%m-%d-%H:%M taken from the API; report_id = SHA-256 of the input bytes",
    "not-UTF-8 input: any non-zero exit code is accepted (the statement does not classify it); stdout must be empty",
]


def inputs():
    T = lambda i, m, r="r1", **kw: {"id": i, "effort": m, "alloc": [r], **kw}  # noqa: E731
    R = [{"id": "r1"}, {"id": "r2"}]
    own_json = 'taskreport own "own" {\n  formats json\n  columns id, name, priority\n}'
    own_csv = 'taskreport owncsv "owncsv" {\n  formats csv\n  columns name, end\n}'
    nested = 'taskreport outer "outer" {\n  formats json\n  columns id, end\n  taskreport inner "inner" {\n    formats json, csv\n    columns id\n  }\n}'
    base = {"resources": R, "tasks": [T("a", 90), T("b", 60, deps=["a"]), T("c", 150, "r2")]}
    cont = {"resources": R, "tasks": [{"id": "g", "children": [T("a", 90), {"id": "h", "children": [T("b", 60, "r2"), {"id": "m", "milestone": True, "deps": ["!b"]}]}]}, T("z", 30, deps=["g"])]}
    unsched = {"resources": R + [{"id": "rd", "leaves": [{"k": "leaves", "type": "annual", "a": "2025-01-07", "b": "2026-01-01"}]}],
               "tasks": [T("a", 60), T("run", 900, "rd"), T("bad", 30, deps=["!bad"]), T("d", 45, deps=["a"])]}
    out = {
        "simple": render.render(base).encode(),
        "containers": render.render(cont).encode(),
        "own-json": render.render({**base, "reports": [own_json]}).encode(),
        "own-csv": render.render({**base, "reports": [own_csv]}).encode(),
        "own-both": render.render({**base, "reports": [own_json, own_csv]}).encode(),
        # own reports in formats the CLI does not print: they must not disturb the id/start/end report on stdout
        **{f"own-{fmt}": render.render({**base, "reports": [f'taskreport other "other" {{\n  formats {fmt}\n  columns id, start, end\n}}']}).encode()
           for fmt in ("tjp", "html", "ical", "niku")},
        "nested-reports": render.render({**cont, "reports": [nested, own_json]}).encode(),
        "own-subdir": render.render({**base, "reports": ['taskreport own "sub/own" {\n  formats json, csv\n  columns id, name\n}']}).encode(),
        "unschedulable": render.render(unsched).encode(),
        "crlf": render.render(base).replace("\n", "\r\n").encode(),
        # one task per calendar day across a year end, on a seven-day resource: dates whose ISO week-year, week number or
        # day-of-year differ from the calendar year's (2024-12-30/31 belong to ISO 2025; 2027-01-01..03 to ISO 2026)
        "year-end-2024": render.render({"start": "2024-12-27", "dur": "3w", "resources": [{"id": "r1", "hours": [("mon - sun", ["9:00 - 17:00"])]}],
                                        "tasks": [T(f"d{i}", 480, **({"deps": [f"d{i - 1}"]} if i else {})) for i in range(9)]}).encode(),
        "year-end-2026": render.render({"start": "2026-12-28", "dur": "3w", "resources": [{"id": "r1", "hours": [("mon - sun", ["9:00 - 17:00"])]}],
                                        "tasks": [{"id": "g", "children": [T(f"d{i}", 480, **({"deps": [f"!d{i - 1}"]} if i else {})) for i in range(8)]}]}).encode(),
        # eleven tasks (two-digit positions), one of them a container: rows must stay in declaration order
        "eleven": render.render({"resources": R, "tasks": [T(f"t{i:02d}", 30 + 10 * i, "r1" if i % 2 else "r2") for i in range(1, 10)]
                                 + [{"id": "grp", "children": [T("x", 40), T("y", 20, "r2")]}]}).encode(),
        # the same task id stated twice (a copy-pasted block), at the top level and inside a container: if the project is accepted at
        # all, the report lists every task of the project, in declaration order
        "dup-ids": render.render({"resources": R, "tasks": [T("a", 90), T("b", 60, deps=["a"]), T("a", 45, "r2", name="a again"),
                                                            {"id": "g", "children": [T("x", 30), T("x", 20, "r2", name="x again")]}]}).encode(),
        # a valid project that defines no task at all: the report is empty (header only / "data": []), the run succeeds
        "no-tasks": render.render({"resources": R, "tasks": []}).encode(),
        "only-milestones": render.render({"resources": R, "tasks": [{"id": "m1", "milestone": True}, {"id": "g", "children": [{"id": "m2", "milestone": True, "deps": ["m1"]}]}]}).encode(),
        "utf8-own": render.render({"resources": [{"id": "r1", "name": "Zoë Müller"}], "tasks": [T("a", 90, name="Grüße – 設計"), T("b", 30, deps=["a"], name="naïve")],
                                   "reports": [own_csv, own_json]}).encode("utf-8"),
        "utf8": render.render({"resources": [{"id": "r1", "name": "Zoë Müller"}], "tasks": [T("a", 90, name="Grüße – 設計"), T("b", 30, deps=["a"], name="naïve")]}).encode("utf-8"),
    }
    return out


OPTIONAL = ("dup-ids",)


def bad_inputs():
    good = inputs()["simple"]
    return {
        "missing": {"args": ["report", "nosuch.tjp"], "files": {}, "codes": (1,)},
        "directory": {"args": ["report", "adir"], "files": {}, "dirs": ["adir"], "codes": (1,)},
        "empty-file": {"args": ["report", "in.tjp"], "files": {"in.tjp": b""}, "codes": (1,)},
        "empty-stdin": {"args": ["report", "-"], "files": {}, "stdin": b"", "codes": (1,)},
        "whitespace-stdin": {"args": ["report"], "files": {}, "stdin": b"  \n\t\n", "codes": (1,)},
        "whitespace-file": {"args": ["report", "in.tjp"], "files": {"in.tjp": b"  \n\n"}, "codes": (1, 2)},
        "syntax-error": {"args": ["report", "in.tjp"], "files": {"in.tjp": good.replace(b"effort 90min", b"effort {", 1)}, "codes": (2,)},
        "syntax-error-stdin": {"args": ["report", "--csv", "-"], "files": {}, "stdin": good.replace(b"allocate r1", b"allocate", 1), "codes": (2,)},
        "not-utf8": {"args": ["report", "in.tjp"], "files": {"in.tjp": good.replace(b'"a"', b'"\xff\xfe"', 1)}, "codes": tuple(range(1, 256))},
        "illegal-report-name": {"args": ["report", "in.tjp"], "files": {"in.tjp": good + b'taskreport bad "a:b" {\n  formats json\n  columns id\n}\n'}, "codes": (2,)},
        "cycle-only": {"args": ["report", "in.tjp"], "files": {"in.tjp": render.render({"resources": [{"id": "r1"}], "tasks": [{"id": "a", "effort": 60, "alloc": ["r1"], "deps": ["!a"]}]}).encode()},
                       "codes": (0,), "good": True},
    }


def api_rows(text_bytes):
    """worker: expected (id, start, end) rows from the real parser + scheduler"""
    from mc import observe

    obs = observe.run_text(text_bytes.decode("utf-8"))
    if obs.get("error"):
        return {"error": obs["error"]}
    rows = []
    for t in obs["tasks"]:
        f = lambda d: d.strftime("%Y-%m-%d-%H:%M") if (t["sched"][0] and d is not None) else ""  # noqa: E731
        rows.append([t["id"], f(t["start"][0]), f(t["end"][0])])
    return {"rows": rows}


def verdict_good(res, fmt, rows, input_bytes):
    v = []
    if res["code"] != 0:
        v.append(("exit", f"exit {res['code']} on a valid project; stderr: {res['stderr'][-300:]!r}"))
        return v
    out = res["stdout"]
    try:
        txt = out.decode("utf-8")
    except UnicodeDecodeError:
        return [("stdout", "stdout is not UTF-8")]
    if fmt == "json":
        try:
            doc = json.loads(txt)
        except ValueError as e:
            return [("stdout", f"stdout is not one JSON document: {e}; starts {txt[:120]!r}")]
        if doc.get("columns") != ["id", "start", "end"]:
            v.append(("wrong-report", f"columns {doc.get('columns')} - not the id/start/end report"))
        got = [[r.get("id"), r.get("start"), r.get("end")] for r in doc.get("data", [])]
        if doc.get("columns") == ["id", "start", "end"] and got != rows:
            v.append(("rows", f"data rows {got[:4]} expected {rows[:4]}"))
        h = hashlib.sha256(input_bytes).hexdigest()
        if doc.get("report_id") != h:
            v.append(("report-id", f"report_id {doc.get('report_id')} is not the SHA-256 of the input bytes {h}"))
        extra = set(doc) - {"data", "columns", "report_id"}
        if extra:
            v.append(("stdout", f"unexpected keys {sorted(extra)}"))
    else:
        got = [r for r in csv.reader(io.StringIO(txt)) if r]
        if not got or got[0] != ["Id", "Start", "End"]:
            v.append(("wrong-report", f"CSV header {got[:1]} - not the id/start/end report"))
        elif got[1:] != rows:
            v.append(("rows", f"CSV rows {got[1:5]} expected {rows[:4]}"))
    if b"Processing" in out or b"Warning" in out or b"Error" in out:
        v.append(("diagnostics-on-stdout", f"diagnostic text on stdout: {txt[:200]!r}"))
    return v


def run(ctx):
    pool = ctx.pool("rebuilt")
    st = Stats()
    ins = inputs()
    names = list(ins)
    api = dict(zip(names, pool.map("mc.props.c19:api_rows", [ins[n] for n in names], timeout=120)))
    # inputs that a tree may legitimately refuse (duplicate ids): judged only where the parser accepts them
    for n in OPTIONAL:
        if "rows" not in api[n] and api[n]["error"][0] == "parse":
            names.remove(n)
            st.skipped += 1
    # base runs
    base_jobs, meta = [], []
    flagsets = [[]] if ctx.tier == "quick" else [[], ["--verbose"], ["--quiet"]]
    for n, flags in [(n, f) for n in names for f in flagsets]:
        for ch in ("path", "dash", "noarg", "spacepath"):
            for fmt in ("json", "csv"):
                args = flags + ["report"] + (["--csv"] if fmt == "csv" else [])
                job = {"files": {}}
                if ch == "path":
                    job["files"] = {"in.tjp": ins[n]}
                    args.append("in.tjp")
                elif ch == "spacepath":
                    if n not in ("simple", "own-both", "utf8"):
                        continue
                    job["files"] = {"my plan v2.project": ins[n]}
                    args.append("my plan v2.project")
                else:
                    job["stdin"] = ins[n]
                    if ch == "dash":
                        args.append("-")
                job["args"] = args
                base_jobs.append(job)
                meta.append((n, ch, fmt) if not flags else (n, ch, fmt, flags[0]))
    base_res = pool.map("mc.cli.jobs:cli_job", base_jobs, timeout=300, chunk=1)
    outputs = {}
    dev_jobs, dev_meta = [], []
    for job, m, res in zip(base_jobs, meta, base_res):
        n, ch, fmt = m[:3]
        st.evaluations += 1
        st.transitions += len(res["trace"])
        st.states.add(hash(res["stdout"]))
        st.nontrivial.add(("base",) + m)
        if "rows" not in api[n]:
            print("HARNESS-ERROR: API failed on a good input", n, api[n])
            return 3
        for c, d in verdict_good(res, fmt, api[n]["rows"], ins[n]):
            st.by_clause[c] = st.by_clause.get(c, 0) + 1
            ctx.violation(c, "-".join(m), {"detail": f"[{n} via {ch}, {fmt}{' ' + m[3] if len(m) > 3 else ''}] {d}", "job": _printable(job), "input": n})
        outputs[m] = res["stdout"]
        if len(m) > 3 and res["stdout"] != outputs.get(m[:3]):
            st.by_clause["flags"] = st.by_clause.get("flags", 0) + 1
            ctx.violation("flags", "-".join(m), {"detail": f"[{m}] stdout with global flag {m[3]} differs from the plain run", "job": _printable(job), "input": n})
        for k, lst in J.listing_points(res["trace"]):
            for perm in J.perms(len(lst)):
                dj = dict(job, script={k: {"act": "go", "order": perm}}, expect={k: ["scandir", next(e["path"] for e in res["trace"] if e["k"] == k)]})
                dev_jobs.append(dj)
                dev_meta.append((m, k, lst, perm))
    # the same input in another process ENVIRONMENT: plain C locale (no UTF-8 anywhere), another process time zone, TMPDIR reached
    # through a symbolic link - the bytes on stdout must be those of the ordinary run
    ENVS = {"c-locale": {"env": {"LC_ALL": "C", "LANG": "C", "PYTHONCOERCECLOCALE": "0", "PYTHONUTF8": "0"}},
            "tz-tokyo": {"env": {"TZ": "Asia/Tokyo"}}, "tz-newyork": {"env": {"TZ": "America/New_York"}}, "tmp-symlink": {"tmp_symlink": True}}
    env_jobs, env_meta = [], []
    for n in ("simple", "utf8", "utf8-own", "own-both", "own-subdir", "nested-reports", "year-end-2024"):
        if n not in names:
            continue
        for en, extra in ENVS.items():
            for fmt in ("json", "csv"):
                env_jobs.append({"files": {"in.tjp": ins[n]}, "args": ["report"] + (["--csv"] if fmt == "csv" else []) + ["in.tjp"], **extra})
                env_meta.append((n, en, fmt))
    for job, (n, en, fmt), res in zip(env_jobs, env_meta, pool.map("mc.cli.jobs:cli_job", env_jobs, timeout=300, chunk=1)):
        st.evaluations += 1
        st.transitions += len(res["trace"])
        st.nontrivial.add(("env", n, en, fmt))
        vs = verdict_good(res, fmt, api[n]["rows"], ins[n])
        if not vs and res["stdout"] != outputs[(n, "path", fmt)]:
            vs = [("environment", f"stdout differs from the ordinary run: {res['stdout'][:120]!r} vs {outputs[(n, 'path', fmt)][:120]!r}")]
        for c, d in vs:
            st.by_clause[c] = st.by_clause.get(c, 0) + 1
            ctx.violation(c, f"{n}-{en}-{fmt}", {"detail": f"[{n}, {fmt}, environment {en}] {d}", "job": _printable(job), "input": n})
    # same bytes from file and stdin; same data with and without own reports
    for n in names:
        for fmt in ("json", "csv"):
            a, b, c = outputs[(n, "path", fmt)], outputs[(n, "dash", fmt)], outputs[(n, "noarg", fmt)]
            d = outputs.get((n, "spacepath", fmt), a)
            if not (a == b == c == d):
                st.by_clause["channel"] = st.by_clause.get("channel", 0) + 1
                ctx.violation("channel", f"{n}-{fmt}", {"detail": f"[{n}, {fmt}] stdout differs between file ({a[:160]!r}...) and stdin ({b[:160]!r}...) input", "input": n})
    for n in ("own-json", "own-csv", "own-both"):
        for fmt in ("json", "csv"):
            a, b = _data(outputs[("simple", "path", fmt)], fmt), _data(outputs[(n, "path", fmt)], fmt)
            if a != b:
                st.by_clause["own-reports"] = st.by_clause.get("own-reports", 0) + 1
                ctx.violation("own-reports", f"{n}-{fmt}", {"detail": f"[{fmt}] rows with the file's own reports ({n}) differ from the rows without: {b} vs {a}", "input": n})
    # listing-order deviations
    dev_res = pool.map("mc.cli.jobs:cli_job", dev_jobs, timeout=300, chunk=1, order=ctx.order(len(dev_jobs)))
    for job, (m, k, lst, perm), res in zip(dev_jobs, dev_meta, dev_res):
        n, ch, fmt = m[:3]
        st.evaluations += 1
        st.transitions += len(res["trace"])
        st.states.add(hash(res["stdout"]))
        st.nontrivial.add(("perm",) + m + (k, tuple(perm)))
        if res["diverged"]:
            print("HARNESS-ERROR: replayed prefix diverged", res["diverged"])
            return 3
        vs = verdict_good(res, fmt, api[n]["rows"], ins[n])
        if not vs and res["stdout"] != outputs[m]:
            vs = [("listing-order", "stdout changes with the order in which the output directory is listed")]
        for c, d in vs:
            st.by_clause[c] = st.by_clause.get(c, 0) + 1
            ctx.violation(c, f"{n}-{ch}-{fmt}-k{k}-{''.join(map(str, perm))}",
                          {"detail": f"[{n} via {ch}, {fmt}; listing {lst} served in order {perm}] {d}", "job": _printable(job), "input": n})
    # bad inputs
    bad = bad_inputs()
    bjobs = [{"args": b["args"], "files": b["files"], "stdin": b.get("stdin"), "dirs": b.get("dirs")} for b in bad.values()]
    bres = pool.map("mc.cli.jobs:cli_job", bjobs, timeout=300, chunk=1)
    for (name, b), job, res in zip(bad.items(), bjobs, bres):
        st.evaluations += 1
        st.transitions += len(res["trace"])
        st.nontrivial.add(("bad", name))
        if b.get("good"):
            continue
        if res["code"] not in b["codes"]:
            st.by_clause["bad-exit"] = st.by_clause.get("bad-exit", 0) + 1
            ctx.violation("bad-exit", name, {"detail": f"[{name}] exit {res['code']}, expected one of {b['codes'][:4]}; stderr {res['stderr'][-300:]!r}", "job": _printable(job)})
        if res["stdout"].strip():
            st.by_clause["bad-stdout"] = st.by_clause.get("bad-stdout", 0) + 1
            ctx.violation("bad-stdout", name, {"detail": f"[{name}] stdout not empty on a failing run: {res['stdout'][:200]!r}", "job": _printable(job)})
        if not res["stderr"].strip():
            st.by_clause["bad-silent"] = st.by_clause.get("bad-silent", 0) + 1
            ctx.violation("bad-silent", name, {"detail": f"[{name}] no diagnostic on stderr", "job": _printable(job)})
    st.samples = [{"input": "own-both", "channel": "path", "format": "json", "text": ins["own-both"].decode()[:800]},
                  {"listing deviation": [str(x) for x in dev_meta[0]] if dev_meta else None},
                  {"bad input": "illegal-report-name"}]
    cov = st.coverage(
        "every input x channel x format run of the real `plan report` + every permutation of every directory listing it performs (one "
        "deviation per run) + every bad input; transitions = intercepted file-system / stdout steps; states = distinct stdout contents; "
        "non-trivial = distinct (input, channel, format[, listing permutation]) cases",
        base_runs=len(base_jobs), listing_deviation_runs=len(dev_jobs), bad_input_runs=len(bjobs))
    return ctx.finish(cov, ASSUME, level="fault_enumeration")


def _data(out, fmt):
    try:
        if fmt == "json":
            return json.loads(out.decode())["data"]
        return [r for r in csv.reader(io.StringIO(out.decode())) if r]
    except Exception:
        return ("unparsable", out[:100])


def _printable(job):
    j = dict(job)
    j["files"] = {k: v.decode("utf-8", "replace") for k, v in (job.get("files") or {}).items()}
    if j.get("stdin") is not None:
        j["stdin"] = j["stdin"].decode("utf-8", "replace")
    return j


def replay(path):
    p = json.load(open(path))
    job = p["job"]
    job["files"] = {k: v.encode() for k, v in (job.get("files") or {}).items()}
    if job.get("stdin") is not None:
        job["stdin"] = job["stdin"].encode()
    res = J.cli_job(job)
    print("exit", res["code"])
    print(res["stdout"].decode("utf-8", "replace")[:1500])
    print(res["stderr"].decode("utf-8", "replace")[-500:])
    return 1
