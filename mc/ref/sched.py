"""RefSched - the documented ASAP list scheduler (priority-ordered earliest fit), from the spec.

  order tasks by priority (desc), ties in declaration order; repeatedly take the first task of that
  order whose predecessors are all placed and place it completely: walk the slots from its bound
  (max of project start, own/inherited pinned start, predecessor end/start + gap) and take a slot iff
  every allocated resource is working the whole slot (RefCalendar), entirely unbooked, and every
  applicable daily / weekly limit (own resource, enclosing resource groups, the task and enclosing
  tasks) still has room; stop when effort is reached; milestones sit at their bound (milestones with a typed
  date of their own are in place before the loop starts).

Core dialect only (slot-aligned calendars and gaps, efforts that are whole slots at the resource's
efficiency); the caller guarantees that. Returns {fullId: (scheduled, start, end)} for all leaves.
"""
from datetime import timedelta

from mc.ref.calendar import RefCalendar, parse_date
from mc.ref.deps import RefDeps


def _limit_hours(v):
    """limit value in hours as an exact fraction (130 min is 13 slots of 10 min, not 12.999...)"""
    import re
    from fractions import Fraction

    m = re.match(r"(\d+(?:\.\d+)?)(min|h|d|w)", v)
    return Fraction(m.group(1)) * {"min": Fraction(1, 60), "h": 1, "d": 8, "w": 40}[m.group(2)]


class _Lim:
    """counts whole booked slots per calendar day / ISO week"""

    def __init__(self, kind, hours, L, only=None):
        self.kind, self.L, self.only = kind, L, only
        self.max_slots = int(hours * 3600 / L)
        self.count = {}

    def period(self, t):
        if self.kind == "dailymax":
            return t.date()
        y, w, _ = t.isocalendar()
        return (y, w)

    def ok(self, t, rid):
        if self.only and rid not in self.only:
            return True
        return self.count.get(self.period(t), 0) < self.max_slots

    def inc(self, t, rid):
        if self.only and rid not in self.only:
            return
        p = self.period(t)
        self.count[p] = self.count.get(p, 0) + 1


def _mk_limits(lim, L):
    out = []
    for k, v in ((lim or {}).items() if isinstance(lim or {}, dict) else lim):
        if isinstance(v, tuple):
            out.append(_Lim(k, _limit_hours(v[0]), L, only=set(v[1])))
        else:
            out.append(_Lim(k, _limit_hours(v), L))
    return out


def ref_schedule(spec, horizon_end=None):
    cal = RefCalendar(spec)
    deps = RefDeps(spec)
    L = cal.L
    pstart = cal.pstart
    import re
    from dateutil.relativedelta import relativedelta

    m = re.match(r"(\d+)([dwmy])", spec.get("dur", "3w"))
    n, u = int(m.group(1)), m.group(2)
    pend = horizon_end or pstart + relativedelta(**{{"d": "days", "w": "weeks", "m": "months", "y": "years"}[u]: n})
    nslots = int((pend - pstart).total_seconds() // L)

    # resources: efficiency, group chain, limits
    res_eff, res_chain, res_lims = {}, {}, {}

    def idx_res(rs, chain):
        for r in rs:
            res_lims[r["id"]] = _mk_limits(r.get("limits"), L)
            res_chain[r["id"]] = [r["id"]] + chain
            res_eff[r["id"]] = r.get("eff") if r.get("eff") is not None else (res_eff.get(chain[0]) if chain else 1.0) or 1.0
            idx_res(r.get("children") or [], [r["id"]] + chain)

    idx_res(spec.get("resources") or [], [])
    task_lims = {fid: _mk_limits(deps.node[fid].get("limits"), L) for fid in deps.order}
    booked = set()  # (rid, slot)

    def inherited(fid, key):
        v = deps.node[fid].get(key)
        if v is not None:
            return v
        for a in deps.ancestors(fid):
            v = deps.node[a].get(key)
            if v is not None:
                return v
        return None

    leaves = deps.leaves()
    seq = {f: i for i, f in enumerate(deps.order)}
    order = sorted(leaves, key=lambda f: (-(inherited(f, "prio") or 500), seq[f]))
    result = {}
    placed = {}

    def node_dates(fid):
        """(scheduled, start, end) of a leaf or container from what is placed so far"""
        if deps.is_leaf(fid):
            return placed.get(fid)
        ls = deps.leaves_below(fid)
        if not all(l in placed and placed[l][0] for l in ls):
            return None
        return (True, min(placed[l][1] for l in ls), max(placed[l][2] for l in ls))

    remaining = list(order)
    # milestones with a date typed on the task itself sit at that date and take no resource: they are in place before any work is
    # (the scheduler's pre-pass) - a task that waits for them, or for a container of them, is ready from the beginning
    for f in list(remaining):
        t = deps.node[f]
        own = t.get("start") or t.get("end")
        if own and (t.get("milestone") or not inherited(f, "effort")) and not (t.get("start") and t.get("end") and t["start"] != t["end"]):
            placed[f] = (True, parse_date(own), parse_date(own))
            remaining.remove(f)
    while remaining:
        pick = None
        for f in remaining:
            ok = True
            for p, _k, _g in deps.edges(f):
                nd = node_dates(p)
                if nd is None or not nd[0]:
                    ok = False
                    break
            if ok:
                pick = f
                break
        if pick is None:
            for f in remaining:
                placed[f] = (False, None, None)
            break
        remaining.remove(pick)
        t = deps.node[pick]
        bound = pstart
        pin = inherited(pick, "start")
        if pin:
            bound = max(bound, parse_date(pin))
        for p, k, g in deps.edges(pick):
            nd = node_dates(p)
            at = (nd[1] if k == "start" else nd[2]) + timedelta(seconds=g)
            bound = max(bound, at)
        effort = inherited(pick, "effort")
        alloc = inherited(pick, "alloc")
        if t.get("milestone") or not effort:
            placed[pick] = (True, bound, bound)
            continue
        need = effort * 60.0  # seconds of effort
        eff = res_eff[alloc[0]]
        s = int((bound - pstart).total_seconds() // L)
        first = last = None
        done = 0.0
        lims_t = [l for a in [pick] + deps.ancestors(pick) for l in task_lims[a]]
        while s < nslots and done < need - 1e-6:
            ts = pstart + timedelta(seconds=s * L)
            free = all(cal.whole_slot_working(r, s) and (r, s) not in booked for r in alloc)
            if free:
                # every member's booking counts against the limits: check the members one after the other against
                # what is left after the members checked before them (tentative increments, undone afterwards)
                tentative = []
                for r in alloc:
                    ls = [l for g in res_chain[r] for l in res_lims[g]] + lims_t
                    if not all(l.ok(ts, r) for l in ls):
                        free = False
                        break
                    for l in ls:
                        before = dict(l.count)
                        l.inc(ts, r)
                        tentative.append((l, before))
                for l, before in reversed(tentative):
                    l.count = before
            if free:
                for r in alloc:
                    booked.add((r, s))
                    for g in res_chain[r]:
                        for l in res_lims[g]:
                            l.inc(ts, r)
                    for l in lims_t:
                        l.inc(ts, r)
                done += L * eff
                if first is None:
                    first = s
                last = s
            s += 1
        if done < need - 1e-6:
            placed[pick] = (False, None, None)
        else:
            placed[pick] = (True, pstart + timedelta(seconds=first * L), pstart + timedelta(seconds=(last + 1) * L))
    for f in leaves:
        result[f] = placed.get(f, (False, None, None))
    return result
