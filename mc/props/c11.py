"""C11 - scheduling is total: it terminates and reports, never crashes or hangs (DESIGN 4, C11).

(A) grammatical but infeasible / extreme projects (cycles, pins outside the window, never-working
resources, zero/huge efforts, zero limits, extreme resolutions, recursive macros ...);
(B) fault enumeration: every single-token edit (delete, duplicate, swap, replace by each of 7 tokens) of
a corpus of valid texts. Each variant runs in an isolated worker with a wall-clock and memory limit.
"""
import itertools
import re

from mc import observe, render
from mc.props import common
from mc.ref.deps import RefDeps
from mc.run import Stats, explore

ASSUME = [
    "phase 1 parse(text, schedule=False): a Project, or a rejection = lark.exceptions.LarkError (incl. VisitError) / ValueError; anything else (other exception types, SystemExit, > 20 s, > 3 GB) is a violation",
    "phase 2 schedule(): no exception; slot-walk steps <= 4 x leaves x slots + 1000; every leaf is scheduled with project.start <= start <= end <= project.end, or unscheduled with at least one warning",
    "clause no-cause (spec-based universe only): an unscheduled leaf must be on/behind a dependency cycle, have a bound beyond the horizon, or not fit",
    "horizons beyond 2^31 seconds (68 years; e.g. effort 100000h) overflow the 32-bit index arithmetic of the extension modules and are outside the universe",
    "token edits: bound 1 (one edit per text); thorough: bound 2 on the two shortest corpus texts",
]
REPL = ["{", "}", '"', "-", "0", "depends", "2025-01-08"]
TOKEN_RE = re.compile(r'"[^"\n]*"|\$\{[^}]*\}|[A-Za-z_][A-Za-z0-9_.!]*|\d{4}-\d{2}-\d{2}(?:-\d{2}:\d{2})?|\d+(?:\.\d+)?|\S')


def corpus():
    from mc.props import c04, c07, c10

    texts = []
    texts.append(render.render({"resources": [{"id": "r1"}], "tasks": [{"id": "a", "effort": 90, "alloc": ["r1"]},
                                                                         {"id": "b", "effort": 60, "alloc": ["r1"], "deps": ["a"]}]}))
    texts.append(render.render(c04.build("S2", [("c", "g")], ("end", "90min"), "rel", None, True, "asap")))
    texts.append(render.render(c04.build("S3", [("h", "g"), ("g.b", "g.a")], ("end", None), "abs", "container", False, "alap-end")))
    texts.append(render.render({"res_min": 30, "scenarios": [("plan", [("delayed", [])])],
                                "resources": [{"id": "grp", "limits": {"dailymax": "4h"}, "children": [{"id": "r1", "eff": 0.7}, {"id": "r2"}]}],
                                "tasks": [{"id": "a", "effort": 100, "alloc": ["r1"], "scen": [("delayed", "effort 200min")]},
                                          {"id": "m", "milestone": True, "deps": ["a"]},
                                          {"id": "b", "effort": 45, "alloc": ["r1", "r2"], "deps": [{"ref": "m", "gap": "1h"}]}]}))
    texts.append(render.render({"shifts": [{"id": "s1", "hours": [("mon - fri", ["22:00 - 6:00"])]}],
                                "vacations": [("2025-01-08", None)],
                                "resources": [{"id": "r1", "shift": "s1", "tz": "America/New_York",
                                               "leaves": [{"k": "leaves", "type": "sick", "a": "2025-01-09", "b": "2025-01-11"}]}],
                                "tasks": [{"id": "a", "effort": 600, "alloc": ["r1"], "prio": 700},
                                          {"id": "b", "effort": 30, "alloc": ["r1"], "limits": {"weeklymax": "5h"}}],
                                "reports": ['taskreport rep "rep" {\n  formats json, csv\n  columns id, name, start, end\n  timeformat "%Y-%m-%d %H:%M"\n}']}))
    texts.append('macro alloc [ allocate ${1} ]\nmacro eff [ effort 2h ]\n' + render.render(
        {"resources": [{"id": "r1"}], "tasks": [{"id": "a", "raw": ["${eff}", "${alloc r1}"]}, {"id": "b", "raw": ["${eff}", "${alloc r1}"], "prec": ["a"]}]}))
    from mc.props import c16, c18
    texts.append(render.render(c16.multi_spec({"bi": 3, "tier": "quick", "tree": "T4", "ov": (("s2", "a", "effort", "x2"),)})))
    texts.append(render.render(c18.to_spec({"pi": 1, "cols": ("id", "name", "start", "cost"), "rf": "%d.%m.%Y %H:%M", "pf": "%Y/%m/%d", "leaf": True, "fmts": ("json", "csv")})))
    texts.append(render.render({"alap": True, "pwh": [("mon - fri", ["8:00 - 12:00", "13:00 - 17:00"])], "gleaves": [("holiday", "2025-01-09", "2025-01-11")],
                                "resources": [{"id": "grp", "hours": [("mon - sat", ["7:00 - 15:00"])], "children": [{"id": "r1", "rate": 10.0}, {"id": "r2", "limits": {"weeklymax": "10h"}}]}],
                                "tasks": [{"id": "g", "end": "2025-01-17-17:00", "children": [{"id": "a", "effort": 300, "alloc": ["r1"], "alt": ["r2"]},
                                                                                                 {"id": "b", "effort": 200, "alloc": ["r1", "r2"], "deps": [{"ref": "!a", "gap": "1d"}]}]},
                                          {"id": "m", "milestone": True, "prec": ["g"]}]}))
    for p in ("/repo/examples/simple.tjp", "/repo/tests/data/simple.tjp"):
        try:
            import os
            root = os.environ.get("VERIF_REPO", "/repo")
            texts.append(open(p.replace("/repo", root, 1)).read())
        except OSError:
            pass
    return texts


def tokens(text):
    return [(m.start(), m.end()) for m in TOKEN_RE.finditer(text)]


def apply_edit(text, ed):
    toks = tokens(text)
    op, i = ed[0], ed[1]
    a, b = toks[i]
    if op == "del":
        return text[:a] + text[b:]
    if op == "dup":
        return text[:b] + " " + text[a:b] + text[b:]
    if op == "swap":
        c, d = toks[i + 1]
        return text[:a] + text[c:d] + text[b:c] + text[a:b] + text[d:]
    if op == "rep":
        return text[:a] + REPL[ed[2]] + text[b:]
    raise ValueError(ed)


def edits_of(text):
    n = len(tokens(text))
    for i in range(n):
        yield ("del", i)
        yield ("dup", i)
        if i + 1 < n:
            yield ("swap", i)
        for k in range(len(REPL)):
            yield ("rep", i, k)


def edit_items(tier):
    texts = corpus()
    for ti, text in enumerate(texts):
        yield {"kind": "text", "ti": ti, "eds": []}
        for ed in edits_of(text):
            yield {"kind": "text", "ti": ti, "eds": [ed]}
    if tier == "thorough":
        order = sorted(range(len(texts)), key=lambda i: len(tokens(texts[i])))[:2]
        for ti in order:
            text = texts[ti]
            for e1 in edits_of(text):
                t1 = apply_edit(text, e1)
                # second edit only at token positions >= first (unordered pairs), on the edited text
                for e2 in edits_of(t1):
                    if e2[1] >= e1[1]:
                        yield {"kind": "text", "ti": ti, "eds": [e1, e2]}


# ---- (A) spec-based infeasible universe -------------------------------------------------------------

def infeasible_items(tier):
    T = lambda i, **kw: {"id": i, "effort": 90, "alloc": ["r1"], **kw}  # noqa: E731
    out = []
    R = [{"id": "r1"}]
    def add(name, spec=None, text=None):
        out.append({"kind": "spec", "name": name, "spec": spec, "text": text})
    # cycles
    add("self-cycle", {"resources": R, "tasks": [T("a", deps=["a"]), T("b")]})
    add("2-cycle", {"resources": R, "tasks": [T("a", deps=["b"]), T("b", deps=["a"]), T("c", deps=["b"])]})
    add("3-cycle", {"resources": R, "tasks": [T("a", deps=["c"]), T("b", deps=["a"]), T("c", deps=["b"])]})
    add("cycle-through-container", {"resources": R, "tasks": [{"id": "g", "deps": ["x"], "children": [T("a"), T("b")]}, T("x", deps=["g.a"])]})
    add("container-depends-own-child", {"resources": R, "tasks": [{"id": "g", "deps": ["g.a"], "children": [T("a"), T("b")]}]})
    # every cycle shape x an attached task z (downstream / upstream of the cycle) x kind of z x project mode
    cycles = {
        "self": [T("a", deps=["a"])],
        "two": [T("a", deps=["b"]), T("b", deps=["a"])],
        "three": [T("a", deps=["c"]), T("b", deps=["a"]), T("c", deps=["b"])],
        "container": [{"id": "g", "deps": ["x"], "children": [T("a"), T("b")]}, T("x", deps=["g.a"])],
    }
    zkinds = {
        "asap": {},
        "alap-end": {"sched": "alap", "end": "2025-01-17-17:00"},
        "alap": {"sched": "alap"},
        "asap-start": {"start": "2025-01-08-09:00"},
        "ms": None,
    }
    import copy as _copy
    for cname, ctasks in cycles.items():
        member = "g.a" if cname == "container" else "a"
        for zk, zattrs in zkinds.items():
            for side in ("down", "up", "both"):
                for palap in (False, True):
                    tasks = _copy.deepcopy(ctasks)
                    z = {"id": "z", "milestone": True} if zattrs is None else T("z", **zattrs)
                    if side in ("down", "both"):
                        z["deps"] = [member]
                    if side in ("up", "both"):
                        tgt = tasks[0]["children"][0] if cname == "container" else tasks[0]
                        tgt["deps"] = list(tgt.get("deps", [])) + ["z"]
                    add(f"cycle {cname} + z {zk} {side} palap={palap}", {"alap": palap, "resources": R, "tasks": tasks + [z, T("free")]})
    for alap in (False, True):
        add(f"unknown-task-ref alap={alap}", {"alap": alap, "resources": R, "tasks": [T("a", deps=["nosuch"]), T("b", deps=["!!!a"])]})
        add(f"unknown-resource alap={alap}", {"alap": alap, "resources": R, "tasks": [{"id": "a", "effort": 90, "alloc": ["ghost"]}, T("b")]})
        add(f"duplicate-ids alap={alap}", {"alap": alap, "resources": R + [{"id": "r1"}], "tasks": [T("a"), T("a"), {"id": "g", "children": [T("a"), T("a")]}]})
        for where in ("leaf", "container"):
            for attr, date in (("start", "2024-12-01"), ("start", "2025-06-01"), ("start", "2025-01-27"), ("end", "2024-12-01"),
                               ("end", "2025-06-01"), ("end", "2025-01-06"), ("start", "2025-01-26-23:00")):
                leaf = T("a")
                cont = {"id": "g", "children": [leaf, T("b", deps=["!a"])]}
                (leaf if where == "leaf" else cont)[attr] = date
                add(f"pin {where} {attr} {date} alap={alap}", {"alap": alap, "resources": R, "tasks": [cont, T("c")]})
        add(f"end-before-start alap={alap}", {"alap": alap, "resources": R, "tasks": [T("a", start="2025-01-10", end="2025-01-08")]})
        add(f"milestone-pins alap={alap}", {"alap": alap, "resources": R, "tasks": [{"id": "m", "milestone": True, "start": "2025-03-01"},
                                                                                        {"id": "n", "milestone": True, "end": "2024-12-30"}, T("a", deps=["m"])]})
        add(f"never-working-leave alap={alap}", {"alap": alap, "resources": [{"id": "r1", "leaves": [{"k": "leaves", "type": "annual", "a": "2025-01-01", "b": "2026-01-01"}]}],
                                                 "tasks": [T("a"), T("b", deps=["a"])]})
        add(f"never-working-hours alap={alap}", {"alap": alap, "resources": [{"id": "r1", "hours": [("sat", ["0:00 - 0:00"])]}], "tasks": [T("a")]})
        for eff in (0, 1, "10000h", "0.5min"):
            add(f"effort {eff} alap={alap}", {"alap": alap, "resources": R, "tasks": [{"id": "a", "effort": eff, "alloc": ["r1"]}, T("b", deps=["a"])]})
        for lim in ("0h", "0.4h", "1min"):
            for kind in ("dailymax", "weeklymax"):
                add(f"limit {kind} {lim} alap={alap}", {"alap": alap, "resources": [{"id": "r1", "limits": {kind: lim}}], "tasks": [T("a")]})
                add(f"task limit {kind} {lim} alap={alap}", {"alap": alap, "resources": R, "tasks": [T("a", limits={kind: lim})]})
        for res in (1, 5, 60, 1440, 7, 45):
            add(f"resolution {res}min alap={alap}", {"alap": alap, "dur": "1w", "res_min": res, "resources": R, "tasks": [T("a"), T("b", deps=["a"])]})
        for eff in (0.0, 0.001, 1000.0):
            add(f"efficiency {eff} alap={alap}", {"alap": alap, "resources": [{"id": "r1", "eff": eff}], "tasks": [T("a")]})
        add(f"no-allocation alap={alap}", {"alap": alap, "resources": R, "tasks": [{"id": "a", "effort": 90}, T("b", deps=["a"])]})
        add(f"empty-container alap={alap}", {"alap": alap, "resources": R, "tasks": [{"id": "g", "raw": []}, T("b", deps=["g"])]})
        add(f"alternative-unknown alap={alap}", {"alap": alap, "resources": R, "tasks": [{"id": "a", "effort": 90, "alloc": ["r1"], "alt": ["ghost"]}]})
        for gap in ("0min", "100d", "3w", "1y", "9000y", "1000000y", "0.001min"):
            add(f"gap {gap} alap={alap}", {"alap": alap, "resources": R, "tasks": [T("a"), T("b", deps=[{"ref": "a", "gap": gap}])]})
        add(f"onstart-cycle alap={alap}", {"alap": alap, "resources": R, "tasks": [T("a", deps=[{"ref": "b", "onstart": True}]), T("b", deps=[{"ref": "a", "onstart": True}])]})
    for alap in (False, True):
        for big in ("3000min", "20000min", "100000min"):
            for res in ({"id": "r1"}, {"id": "r1", "hours": [("mon - fri", ["8:00 - 16:00"])]}):
                add(f"later scenario bigger {big} alap={alap} ownhours={'hours' in res}",
                    {"alap": alap, "scenarios": [("plan", [("s2", [("s3", [])])])], "resources": [res],
                     "tasks": [{"id": "a", "effort": 90, "alloc": ["r1"], "scen": [("s2", f"effort {big}")]}, T("b", deps=["a"]), {"id": "d", "raw": ["duration 3d"], "deps": ["a"]}]})
        for gl in ("2h", "3d", "4w", "60d"):
            add(f"gaplength {gl} alap={alap}", {"alap": alap, "dur": "2w", "resources": R,
                                                "tasks": [T("a"), {"id": "b", "effort": 60, "alloc": ["r1"], "raw": [f"depends a {{ gaplength {gl} }}"]}]})
            # ... in front of a milestone, and inherited from a container (a bound beyond the window must leave them unscheduled)
            add(f"gaplength {gl} milestone alap={alap}", {"alap": alap, "dur": "2w", "resources": R,
                                                          "tasks": [T("a"), {"id": "m", "milestone": True, "deps": [{"ref": "a", "gaplen": gl}]},
                                                                    {"id": "g", "deps": [{"ref": "a", "gaplen": gl}], "children": [{"id": "n", "milestone": True}, T("w")]}]})
    never = {"id": "rp", "leaves": [{"k": "leaves", "type": "annual", "a": "2025-01-01", "b": "2026-01-01"}]}
    for alap in (False, True):
        for scen in (None, [("plan", [("s2", [])])]):
            base = {"alap": alap, "scenarios": scen} if scen else {"alap": alap}
            add(f"alt primary-never-works alap={alap} scen={bool(scen)}", {**base, "resources": [never, {"id": "rb"}], "tasks": [{"id": "a", "effort": 90, "alloc": ["rp"], "alt": ["rb"]}, T("b")]})
            add(f"alt primary-is-group alap={alap} scen={bool(scen)}", {**base, "resources": [{"id": "grp", "children": [{"id": "m1"}]}, {"id": "rb"}, {"id": "r1"}],
                                                                        "tasks": [{"id": "a", "effort": 90, "alloc": ["grp"], "alt": ["rb"]}, T("b")]})
            add(f"alt both-never alap={alap} scen={bool(scen)}", {**base, "resources": [never, dict(never, id="rq"), {"id": "r1"}], "tasks": [{"id": "a", "effort": 90, "alloc": ["rp"], "alt": ["rq"]}, T("b")]})
            add(f"alt two-compete alap={alap} scen={bool(scen)}", {**base, "resources": [{"id": "rp"}, {"id": "rb"}, {"id": "r1"}],
                                                                   "tasks": [{"id": "a", "effort": 60, "alloc": ["rp"], "alt": ["rb"], "end": "2025-01-10-17:00"} if alap else {"id": "a", "effort": 60, "alloc": ["rp"], "alt": ["rb"]},
                                                                             {"id": "c", "effort": 60, "alloc": ["rp"], "alt": ["rb"], "end": "2025-01-10-17:00"} if alap else {"id": "c", "effort": 6000, "alloc": ["rp"], "alt": ["rb"]}, T("b")]})
    # every state vector of three candidates (primary, first and second alternative) x short / month-long effort
    import itertools as _it
    for kinds in _it.product(("ok", "busy", "never", "slow", "zero"), repeat=3):
        for eff_min in (90, 14400):
            for alap in (False, True):
                rs, extra = [], []
                for i, kd in enumerate(kinds):
                    r = {"id": f"c{i}"}
                    if kd == "never":
                        r["leaves"] = [{"k": "leaves", "type": "annual", "a": "2025-01-01", "b": "2026-01-01"}]
                    elif kd == "slow":
                        r["eff"] = 0.3 if eff_min > 90 else 0.01
                    elif kd == "zero":
                        r["eff"] = 0.0   # legal in the language (rooms, equipment)
                    elif kd == "busy":
                        extra.append({"id": f"hold{i}", "effort": 2400, "alloc": [f"c{i}"], "prio": 900})
                    rs.append(r)
                add(f"alt-vector {kinds} effort={eff_min} alap={alap}",
                    {"alap": alap, "resources": rs + [{"id": "r1"}], "tasks": extra + [{"id": "a", "effort": eff_min, "alloc": ["c0"], "alt": ["c1", "c2"]}, T("b")]})
    for lv in (("2024-12-09", "2024-12-11"), ("2024-12-30", "2025-01-08"), ("2025-03-01", "2025-03-05"), ("2025-01-20", "2025-03-01"), ("2020-01-01", "2030-01-01")):
        for kind in ("leaves", "vacation", "booking", "pvac", "gleave"):
            for alap in (False, True):
                spec = {"alap": alap, "resources": [{"id": "r1"}], "tasks": [T("a"), T("b", deps=["a"])]}
                if kind in ("leaves", "vacation"):
                    spec["resources"][0]["leaves"] = [{"k": kind, "type": "annual", "a": lv[0], "b": lv[1]}]
                elif kind == "booking":
                    spec["resources"][0]["leaves"] = [{"k": "booking", "a": lv[0] + "-09:00", "b": "+6h"}]
                elif kind == "pvac":
                    spec["vacations"] = [lv]
                else:
                    spec["gleaves"] = [("holiday", lv[0], lv[1])]
                add(f"leave {kind} {lv} alap={alap}", spec)
    for dur in ("1d", "0d", "2y", "1m"):
        add(f"project duration {dur}", {"dur": dur, "resources": R, "tasks": [T("a"), T("b", deps=["a"])]})
    base = render.render({"resources": R, "tasks": [T("a"), T("b", deps=["a"])]})
    add("macro self-recursive", text="macro boom [ ${boom} ${boom} ]\n" + base.replace("effort 90min", "effort 90min ${boom}", 1))
    add("macro self-recursive single", text="macro loop [ ${loop} ]\n" + base.replace("effort 90min", "${loop}", 1))
    add("macro mutual", text="macro ping [ ${pong} ]\nmacro pong [ ${ping} ${ping} ]\n" + base.replace("effort 90min", "${ping}", 1))
    # recursion that neither reaches a fixed point nor grows fast: rings of length 2 and 3 that reproduce themselves exactly, a
    # self-reference next to other text; called in statement position, inside a string, inside a comment, defined after use
    ring2 = "macro ping [ ${pong} ]\nmacro pong [ ${ping} ]\n"
    ring3 = "macro ra [ ${rb} ]\nmacro rb [ ${rc} ]\nmacro rc [ ${ra} ]\n"
    grow = "macro more [ priority 600 ${more} ]\n"
    for nm, defs, call in (("ring2", ring2, "${ping}"), ("ring3", ring3, "${ra}"), ("selfgrow", grow, "${more}")):
        add(f"macro {nm} statement", text=defs + base.replace("effort 90min", "effort 90min " + call, 1))
        add(f"macro {nm} in string", text=defs + base.replace('"a"', '"a ' + call + '"', 1))
        add(f"macro {nm} in comment", text=defs + base.replace("effort 90min", "effort 90min # " + call, 1))
        add(f"macro {nm} defined after use", text=base.replace("effort 90min", "effort 90min " + call, 1) + defs)
    # a task waiting for a container whose children are all placed by the milestone pre-pass (dated milestones), alone and with company
    for alap in (False, True):
        for extra in (False, True):
            for nest in (False, True):
                ms = [{"id": "m1", "milestone": True, "start": "2025-01-07"}, {"id": "m2", "milestone": True, "start": "2025-01-08"}]
                g = {"id": "g", "children": ms if not nest else [{"id": "h", "children": ms}]}
                tasks = [g, T("t", deps=["g"])] + ([T("o")] if extra else [])
                add(f"container of dated milestones alap={alap} extra={extra} nest={nest}", {"alap": alap, "resources": R, "tasks": tasks})
    # duration / length statements, plain and scenario-prefixed (they are accepted by the grammar)
    for body in ("duration 2d", "length 2d", "delayed:duration 2d", "delayed:length 2d", "plan:duration 1d", "duration 2d\n  delayed:duration 3d"):
        add(f"task with {body!r}", text='project p "P" 2025-01-06 +3w {\n  scenario plan "Plan" {\n    scenario delayed "Delayed"\n  }\n}\nresource r1 "r1" {\n}\n'
                                      f'task a "a" {{\n  {body}\n}}\ntask b "b" {{\n  effort 2h\n  allocate r1\n  depends a\n}}\n')
    # project durations in every unit and with decimals; dates given by (known and unknown) macro references
    for dur in ("36h", "90min", "1.5w", "0.5m", "2.5d", "1y", "1.5y", "0d"):
        add(f"project duration +{dur}", {"dur": dur, "resources": R, "tasks": [T("a"), T("b", deps=["a"])]})
    add("start ${unknown}", text=base.replace("effort 90min", "effort 90min start ${nosuch}", 1))
    add("start ${projectstart}", text=base.replace("effort 90min", "effort 90min start ${projectstart}", 1))
    add("start ${now}", text=base.replace("effort 90min", "effort 90min start ${now}", 1))
    # contradictory or barely-outside typed dates
    for alap in (False, True):
        for st, en in (("2025-01-10", "2025-01-08"), ("2025-01-10", "2025-01-10"), ("2025-01-08", "2025-01-10"), ("2025-01-27-00:30", None),
                       (None, "2025-01-27-00:30"), ("2025-01-05-23:30", None), (None, "2025-01-05-23:30"), ("2025-01-27", None), (None, "2025-01-06")):
            for ms in (True, False):
                t = {"id": "m", "milestone": True} if ms else {"id": "m", "effort": 60, "alloc": ["r1"]}
                if st:
                    t["start"] = st
                if en:
                    t["end"] = en
                add(f"typed dates {st}..{en} milestone={ms} alap={alap}", {"alap": alap, "resources": R, "tasks": [t, T("b", deps=["m"])]})
    for eff in ("1000000y", "10000y", "20y"):
        add(f"effort {eff}", {"resources": R, "tasks": [{"id": "a", "effort": eff, "alloc": ["r1"]}, T("b", deps=["a"])]})
    # the same kind of statement written many times in one body (valid projects: they must be scheduled, in bounded work)
    for n in (2, 3, 18):
        days = [f"2025-01-{7 + (i % 20):02d}" for i in range(n)]
        add(f"{n} leaves statements", text='project p "P" 2025-01-06 +6w {\n}\nresource r1 "r1" {\n' + "".join(f"  leaves annual {d}\n" for d in days)
            + '}\ntask a "a" {\n  effort 20h\n  allocate r1\n}\n')
        add(f"{n} vacation statements", text='project p "P" 2025-01-06 +6w {\n}\n' + "".join(f"vacation {d}\n" for d in days)
            + 'resource r1 "r1" {\n}\ntask a "a" {\n  effort 20h\n  allocate r1\n}\n')
        add(f"{n} global leaves statements", text='project p "P" 2025-01-06 +6w {\n}\n' + "".join(f'leaves holiday "h" {d}\n' for d in days)
            + 'resource r1 "r1" {\n}\ntask a "a" {\n  effort 20h\n  allocate r1\n}\n')
        add(f"{n} depends statements", text='project p "P" 2025-01-06 +6w {\n}\nresource r1 "r1" {\n}\ntask a "a" {\n  effort 4h\n  allocate r1\n}\ntask b "b" {\n  effort 4h\n  allocate r1\n'
            + "  depends a\n" * n + "}\n")
        add(f"{n} precedes statements", text='project p "P" 2025-01-06 +6w {\n}\nresource r1 "r1" {\n}\ntask a "a" {\n  effort 4h\n  allocate r1\n' + "  precedes b { gapduration 1h }\n" * n
            + '}\ntask b "b" {\n  effort 4h\n  allocate r1\n  depends a\n}\n')
        add(f"{n} allocate statements", text='project p "P" 2025-01-06 +6w {\n}\nresource r1 "r1" {\n}\nresource r2 "r2" {\n}\ntask a "a" {\n  effort 4h\n' + "  allocate r1\n" * n + "}\n")
        add(f"{n} limits blocks", text='project p "P" 2025-01-06 +6w {\n}\nresource r1 "r1" {\n' + "  limits { dailymax 4h }\n" * n + '}\ntask a "a" {\n  effort 20h\n  allocate r1\n'
            + "  limits { weeklymax 12h }\n" * n + "}\n")
    for first, second in (("r1", "r2 { alternative r3 }"), ("r1 { alternative r3 }", "r2"), ("r1 { alternative r3 }", "r1 { alternative r3 }"), ("r1 { alternative r2 }", "r2 { alternative r3 }")):
        add(f"allocate {first} + allocate {second}", text='project p "P" 2025-01-06 +2w {\n}\nresource r1 "r1" {\n}\nresource r2 "r2" {\n}\nresource r3 "r3" {\n}\n'
            f'task a "a" {{\n  effort 6h\n  allocate {first}\n  allocate {second}\n}}\n')
    # the one flag name the scheduler gives a meaning to ('contiguous': the task wants an unbroken block) x efficiencies incl. 0
    # (a passive resource such as a room) x single / team / alternative x project mode
    for eff in ("0", "0.5", "1.0", "2.5"):
        for alloc in ("room", "room, dev", "dev, room", "dev { alternative room }", "room { alternative dev }"):
            for alap in (False, True):
                for flagged in (("a",), ("a", "b")):
                    add(f"contiguous eff={eff} allocate {alloc} alap={alap} flagged={flagged}",
                        text='project p "P" 2025-01-06 +2w {\n' + ("  scheduling alap\n" if alap else "") + '}\n'
                        + f'resource room "Room" {{\n  efficiency {eff}\n}}\nresource dev "Dev" {{\n  efficiency 0.5\n  leaves annual 2025-01-08\n}}\n'
                        + f'task a "a" {{\n  effort 11h\n  allocate {alloc}\n  flags contiguous\n}}\n'
                        + f'task b "b" {{\n  effort 2h\n  allocate dev\n  depends a\n' + ("  flags contiguous\n" if "b" in flagged else "") + '}\n')
    # the same kinds of trouble in a process that has NO standard error (sys.stderr is None): warnings have nowhere to go, the run
    # must still end with unscheduled tasks, not with an exception out of the message handler
    for name, sp in (("2-cycle", {"resources": R, "tasks": [T("a", deps=["b"]), T("b", deps=["a"]), T("c", deps=["b"])]}),
                     ("overrun", {"dur": "1w", "resources": R, "tasks": [{"id": "a", "effort": 6000, "alloc": ["r1"]}, T("b", deps=["a"])]}),
                     ("nobody", {"resources": R, "tasks": [{"id": "a", "effort": 120}, T("b", deps=["a"])]}),
                     ("fine", {"resources": R, "tasks": [T("a"), T("b", deps=["a"])]})):
        for alap in (False, True):
            out.append({"kind": "spec", "name": f"no stderr: {name} alap={alap}", "spec": {**sp, "alap": alap}, "text": None, "no_stderr": True})
    add("macro missing args", text="macro two [ effort ${1} allocate ${2} ]\n" + base.replace("effort 90min", "${two}", 1))
    add("macro undefined", text=base.replace("effort 90min", "${nosuch}", 1))
    add("macro unterminated", text="macro bad [ effort 1h \n" + base)
    add("empty", text="")
    add("only comment", text="# nothing\n")
    add("no project", text='task a "a" { }\n')
    add("two projects", text=base + base)
    add("no tasks", text='project p "P" 2025-01-06 +1w {\n}\n')
    add("project without duration", text='project p "P" 2025-01-06 {\n}\nresource r1 "r1" { }\ntask a "a" { effort 2h allocate r1 }\n')
    return out


def to_text(item):
    if item["kind"] == "text":
        t = corpus()[item["ti"]]
        for ed in item["eds"]:
            t = apply_edit(t, tuple(ed))
        return t
    return item["text"] if item.get("text") is not None else render.render(item["spec"])


def evaluate(item):
    text = to_text(item)
    observe.install_monitors()
    observe.reset_counters()
    obs = observe.run_text(text, no_stderr=bool(item.get("no_stderr")))
    r = {"k": render.key(item), "v": [], "nt": False, "s": observe.sig(obs), "tr": observe.MON["slotwalk"] + observe.MON["placements"]}
    err = obs.get("error")
    v = []
    accepted = False
    if err:
        phase, typ, msg = err
        if phase == "parse":
            ok = typ.startswith("lark.") or typ == "builtins.ValueError"
            if not ok:
                v.append(("parse-crash", f"parse raised {typ}: {msg[:200]}"))
            r["x"] = {"rejected": 1}
        else:
            v.append(("schedule-crash", f"schedule() raised {typ}: {msg[:200]}"))
    else:
        accepted = True
        leaves = [t for t in obs["tasks"] if t["leaf"]]
        nslots = int((obs["pend"] - obs["pstart"]).total_seconds() // obs["gran"]) + 2 if obs.get("pstart") and obs.get("pend") else 0
        bound = 4 * max(1, len(leaves)) * max(1, nslots) * max(1, obs.get("nsc", 1)) + 1000
        if observe.MON["slotwalk"] > bound:
            v.append(("unbounded", f"{observe.MON['slotwalk']} slot-walk steps for {len(leaves)} leaves x {nslots} slots (bound {bound})"))
        warned = any(m[0].lower().endswith("warning") or "warning" in m[0].lower() for m in obs["messages"])
        for t in leaves:
            for sc in range(obs["nsc"]):
                if t["sched"][sc]:
                    st, en = t["start"][sc], t["end"][sc]
                    if st is None or en is None:
                        v.append(("range", f"{t['id']} scheduled but start={st} end={en}"))
                    elif not (obs["pstart"] <= st <= en <= obs["pend"]):
                        v.append(("range", f"{t['id']} scheduled with start {st} end {en} outside/inverted in horizon [{obs['pstart']}, {obs['pend']}]"))
                elif not warned:
                    v.append(("silent", f"{t['id']} is unscheduled and no warning was emitted"))
        if item["kind"] == "spec" and item.get("spec") is not None:
            v += no_cause(item["spec"], obs)
            v += bound_beyond(item["spec"], obs)
        r["x"] = {"accepted": 1, "runs_with_unscheduled_leaf": 1 if any(not t["sched"][0] for t in leaves) else 0}
        r["nt"] = any(not t["sched"][0] for t in leaves) or item["kind"] == "spec"
    if item["kind"] == "text" and not accepted:
        r["nt"] = True
    r["v"] = common.dedup(v)
    return r


def bound_beyond(spec, obs):
    """forward tasks behind a gaplength edge whose bound (predecessor end + that many working hours of the project calendar) lies
    beyond the project end must be unscheduled - not parked at the project end"""
    v = []
    if not spec or spec.get("alap"):
        return v
    try:
        deps = RefDeps(spec)
    except Exception:
        return v
    from mc.ref.calendar import RefCalendar
    cal = None
    tix = {t["id"]: t for t in obs["tasks"]}
    for fid in deps.leaves():
        gl = [(p, h) for a in [fid] + list(deps.ancestors(fid)) for p, h in deps.gaplen.get(a, [])]
        rec = tix.get(fid)
        if not gl or rec is None or not rec["sched"][0]:
            continue
        cal = cal or RefCalendar(spec)
        for p, hours in gl:
            pr = tix.get(p)
            if pr and pr["sched"][0] and pr["end"][0] is not None:
                bound = cal.advance_working(pr["end"][0], hours)
                if bound > obs["pend"]:
                    v.append(("bound-beyond", f"{fid} is reported scheduled at {rec['start'][0]} although its bound {p}.end + {hours} working hours = {bound} lies beyond the project end {obs['pend']}"))
    return v


def no_cause(spec, obs):
    """An unscheduled leaf must have one of the stated reasons (cycle, bound beyond horizon, does not fit).
    Kept conservative: only acyclic projects whose tasks have no pins, whose resources exist and work, and
    with modest efforts are judged - there every leaf must be scheduled."""
    v = []
    try:
        deps = RefDeps(spec)
    except Exception:
        return v
    if deps.unresolved or not deps.acyclic():
        return v
    rids = {r["id"] for r in spec.get("resources", [])}
    for fid in deps.order:
        t = deps.node[fid]
        if t.get("limits") or t.get("end"):
            return v
        if t.get("start"):
            # a dated MILESTONE inside the first week of a forward project is harmless (nothing can fail to fit); other pins are not judged
            if not (t.get("milestone") and not spec.get("alap") and "2025-01-06" <= str(t["start"])[:10] <= "2025-01-10"):
                return v
        if deps.is_leaf(fid) and not t.get("milestone"):
            e = t.get("effort")
            if not isinstance(e, int) or e > 600 or e < 1 or not t.get("alloc") or any(a not in rids for a in t["alloc"]) or t.get("alt"):
                return v
        for d in t.get("deps") or []:
            if isinstance(d, dict) and d.get("gap") and d["gap"] not in ("30min", "90min", "1h", "1d", "0min"):
                return v
    for r in spec.get("resources", []):
        if r.get("leaves") or r.get("hours") or r.get("limits") or (r.get("eff") not in (None, 1.0, 0.5, 0.7)):
            return v
    if spec.get("dur", "3w") not in ("3w", "4w", "1w") or spec.get("res_min") not in (None, 60, 30, 15, 5):
        return v
    if spec.get("vacations") or spec.get("gleaves") or spec.get("pwh") or spec.get("shifts"):
        return v
    for t in obs["tasks"]:
        if t["leaf"] and not t["sched"][0]:
            v.append(("no-cause", f"{t['id']} is unscheduled although the project is acyclic, unpinned, and fits easily"))
    return v


def deadlock_items(tier):
    """acyclic trees with container-level edges (the C04 universe, ASAP, no pins): every leaf must be scheduled"""
    from mc.props import c04

    for it in c04.universe("quick" if tier == "quick" else "thorough"):
        if it.get("kind"):
            continue
        if it["mode"] == "asap" and not it["pin"] and it["shared"]:
            yield {"kind": "spec", "name": "c04", "spec": None, "c04": it}


def evaluate_any(item):
    if item.get("c04") is not None:
        from mc.props import c04

        spec = c04.to_spec(item["c04"])
        if not RefDeps(spec).acyclic():
            return {"k": "", "skip": True, "v": []}
        item = {"kind": "spec", "name": "c04", "spec": spec, "text": None, "src": item["c04"]}
    return evaluate(item)


def payload(item, clause, detail):
    if item.get("c04") is not None:
        from mc.props import c04

        return {"item": item, "detail": detail, "tjp": render.render(c04.to_spec(item["c04"]))}
    return {"item": item, "detail": detail, "tjp": to_text(item)[:6000]}


def sample(item):
    if item.get("c04") is not None:
        return {"item": item}
    return {"item": {k: v for k, v in item.items() if k != "spec"}, "text": to_text(item)[:1200]}


def trait(item, clause, detail, fid):
    return False


def run(ctx):
    st = Stats()
    items = itertools.chain(infeasible_items(ctx.tier), deadlock_items(ctx.tier), edit_items(ctx.tier))
    explore(ctx, items, "mc.props.c11:evaluate_any", st, payload=payload, sample_of=sample, trait=trait, timeout=20.0, batch=20000)
    cov = st.coverage(
        "(A) hand-enumerated infeasible/extreme projects x ASAP/ALAP + every acyclic container-edge project of the C04 universe (ASAP); "
        "(B) every single-token edit (delete, duplicate, swap with next, replace by each of 7 tokens) of each corpus text (thorough: all "
        "ordered pairs of edits on the two shortest texts); distinct = distinct inputs; non-trivial = the input was rejected, left a leaf "
        "unscheduled, or belongs to the infeasible universe; states = distinct observations; transitions = slot-walk steps + placements",
        corpus_texts=len(corpus()), corpus_tokens=[len(tokens(t)) for t in corpus()])
    return ctx.finish(cov, ASSUME, level="fault_enumeration")


def replay(path):
    return common.generic_replay(path, evaluate_any)
