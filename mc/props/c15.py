"""C15 - equivalent ways of writing a project give the same schedule (DESIGN 4, C15).

Base projects x every single application (thorough: every pair of different kinds) of the listed
meaning-preserving rewrites; dates of the rewritten text (ids mapped back) must equal the original's.
"""
import copy
import re

from mc import render
from mc.props import c04, common
from mc.ref.deps import RefDeps
from mc.run import Stats, explore

ASSUME = [
    "rewrites: consistent renaming (3 adversarial name sets), relative <-> absolute dependency path per edge, depends <-> precedes per edge (options carried over), "
    "shift reference <-> inline hours per resource, comment / blank-line insertion at every token boundary (#, //, /* */ incl. comments containing braces and quotes), "
    "extraction of each attribute line into a macro (plain, with ${1} argument where the line has a value, and with the value as the 10th / 12th of twelve arguments)",
    "bases: nested task trees of the C04 shapes with 1-3 edges (container-level and leaf-level), gaps, ASAP and ALAP, plus a two-resource base with a shift, leaves and limits and a base whose calendars sit on resource groups",
    "token boundaries are those of the grammar's terminals (numbers with unit suffix, dates, times, '!'-references and strings are single tokens)",
]
TOK = re.compile(r'"[^"\n]*"|\$\{[^}]*\}|\d{4}-\d{2}-\d{2}(?:-\d{2}:\d{2})?|\d{1,2}:\d{2}|\+?\d+(?:\.\d+)?[a-z]*|[!A-Za-z_][A-Za-z0-9_.!:]*|\S')
COMMENTS = ["# c\n", " // c\n", " /* c */ ", "\n\n", " /* { } \" */ ", "# \"q\" { task x\n"]
NAMESETS = {
    "reversed": ["zz9", "zz8", "zz7", "zz6", "zz5", "zz4", "zz3", "zz2", "zz1", "zz0"],
    "prefix": ["x", "xy", "xyz", "xyzw", "x_", "x_1", "x_12", "xx"],
    "keywordish": ["plan", "delayed", "rev", "shift1", "mon1", "start1", "end_", "effort_"],
}


def bases(tier):
    out = []
    B = c04.build
    for mode in ("asap", "alap"):
        out.append(B("S2", [("c", "g")], ("end", None), "rel", None, True, mode))
        out.append(B("S2", [("g.b", "g.a"), ("c", "g.b")], ("end", "90min") if mode == "asap" else ("end", None), "rel", None, True, mode))
        out.append(B("S3", [("h", "g"), ("g.b", "g.a")], ("end", None), "rel", None, False, mode))
        out.append(B("S4", [("g.c", "g.h"), ("d", "g")], ("end", None), "rel", None, True, mode))
        out.append(B("S4", [("g.h.b", "g.h.a"), ("d", "g.h.b")], ("end", "1d") if mode == "asap" else ("end", None), "abs", None, True, mode))
        out.append(B("S5", [("g.b", "a"), ("g.c", "g.b")], ("end", None), "abs", None, True, mode))
        # relative references whose remainder is a dotted path ('!h.a', '!!h.a', '!g.h.b')
        out.append(B("S4", [("g.c", "g.h.a"), ("d", "g.h.b")], ("end", None), "rel", None, True, mode))
        out.append(B("S6", [("g.k.c", "g.h.a"), ("g.k.d", "g.h")], ("end", None), "rel", None, True, mode))
    out.append(B("S3", [("h.c", "g.a"), ("h", "g")], ("start", "30min"), "rel", None, True, "asap"))
    # absolute references to top-level tasks declared AFTER nested tasks (root lookup must not be captured by a nested short id)
    out.append(B("S2", [("g.a", "c")], ("end", None), "abs", None, True, "asap"))
    out.append(B("S4", [("g.h.a", "d"), ("g.c", "d")], ("end", "30min"), "abs", None, True, "asap"))
    for mode in ("asap", "alap"):
        clash = B("S3", [("h.d", "g.a"), ("h.d", "h.c"), ("g.b", "g.a")], ("end", None), "abs", None, True, mode)
        clash = rename_nested(clash, "h", "c", "a")      # g.a and h.a now share the short id 'a'
        out.append(clash)
    for mode in ("asap", "alap"):
        # the SAME relative reference text ('!a') written in two different containers, where it names two different tasks
        leaf = lambda i, m, **kw: {"id": i, "effort": m, "alloc": ["r1"], **kw}  # noqa: E731
        out.append({"dur": "4w", "alap": mode != "asap", "resources": [{"id": "r1"}],
                    "tasks": [{"id": "g", "children": [leaf("a", 90), leaf("b", 150, deps=["!a"])]},
                              {"id": "h", "deps": ["!g"], "children": [leaf("a", 60), leaf("b", 40, deps=["!a"])]}]})
    two = {"shifts": [{"id": "s1", "hours": [("mon - fri", ["8:00 - 12:00", "13:00 - 17:00"])]}],
           "vacations": [("2025-01-08", None)],
           "resources": [{"id": "r1", "shift": "s1", "eff": 0.7, "leaves": [{"k": "leaves", "type": "sick", "a": "2025-01-09", "b": "2025-01-11"}]},
                         {"id": "r2", "hours": [("mon - thu", ["9:00 - 15:00"])], "limits": {"dailymax": "3h"}}],
           "tasks": [{"id": "a", "effort": 200, "alloc": ["r1"], "prio": 700},
                     {"id": "b", "effort": 150, "alloc": ["r2"], "deps": ["a"]},
                     {"id": "c", "effort": 90, "alloc": ["r1", "r2"], "deps": [{"ref": "b", "gap": "2h"}], "limits": {"dailymax": "2h"}},
                     {"id": "m", "milestone": True, "deps": ["c"]}]}
    out.append(two)
    # calendars given on resource GROUPS (shift reference on one, inline hours on the other); the members are allocated
    grp = {"shifts": [{"id": "s1", "hours": [("mon - thu", ["6:00 - 12:00"])]}],
           "resources": [{"id": "ga", "shift": "s1", "children": [{"id": "r1"}, {"id": "r2", "eff": 0.7}]},
                         {"id": "gb", "hours": [("tue - sat", ["10:00 - 18:00"])], "children": [{"id": "r3"}]}],
           "tasks": [{"id": "a", "effort": 300, "alloc": ["r1"]}, {"id": "b", "effort": 200, "alloc": ["r2"], "deps": ["a"]},
                     {"id": "c", "effort": 400, "alloc": ["r3"], "deps": [{"ref": "a", "gap": "1d"}]}, {"id": "m", "milestone": True, "deps": ["b", "c"]}]}
    out.append(grp)
    # a busy primary and two TIED alternatives listed in non-alphabetical order, each also used by another task: which one wins
    # must not depend on how the resources are called
    alts = {"resources": [{"id": "dev"}, {"id": "zed"}, {"id": "amy"}],
            "tasks": [{"id": "hold", "effort": 600, "alloc": ["dev"], "prio": 900}, {"id": "b", "effort": 300, "alloc": ["dev"], "alt": ["zed", "amy"]},
                      {"id": "f", "effort": 200, "alloc": ["amy"], "prio": 300}, {"id": "s", "effort": 200, "alloc": ["zed"], "prio": 300}]}
    out.append(alts)
    # dependency lists that mix plain entries and entries with options, the plain predecessor binding
    for mode in ("asap", "alap"):
        leaf = lambda i, m, r="r1", **kw: {"id": i, "effort": m, "alloc": [r], **kw}  # noqa: E731
        mixed = {"dur": "4w", "alap": mode != "asap", "resources": [{"id": "r1"}, {"id": "r2"}],
                 "tasks": [leaf("a", 120), leaf("b", 300, "r2"), leaf("c", 90, deps=["b", {"ref": "a", "gap": "2h"}]),
                           leaf("d", 60, "r2", deps=[{"ref": "a", "gap": "1d"}, "c"])]}
        if mode == "asap":
            mixed["tasks"].append(leaf("e", 45, "r2", deps=["d", {"ref": "b", "onstart": True}]))
        out.append(mixed)
    # a CONTAINER as the successor of an edge, its children receiving the edge by inheritance: backward container with an end (the
    # predecessor is pulled late), and a maxgap edge towards children that cannot start at once (the predecessor is delayed)
    leaf = lambda i, m, r="r1", **kw: {"id": i, "effort": m, "alloc": [r], **kw}  # noqa: E731
    out.append({"dur": "4w", "resources": [{"id": "r1"}, {"id": "r2"}],
                "tasks": [leaf("a", 240), {"id": "g", "sched": "alap", "end": "2025-01-22-17:00", "deps": ["a"], "children": [leaf("x", 180, "r2"), leaf("y", 120, "r2", deps=["!x"])]},
                          leaf("z", 60, deps=["g"])]})
    out.append({"dur": "4w", "resources": [{"id": "r1"}, {"id": "r2", "leaves": [{"k": "leaves", "type": "annual", "a": "2025-01-06", "b": "2025-01-10"}]}],
                "tasks": [leaf("a", 240), {"id": "g", "deps": [{"ref": "a", "maxgap": "4h"}], "children": [leaf("x", 180, "r2"), leaf("y", 120, "r2")]}]})
    return out


# ---- spec-level rewrites ----------------------------------------------------------------------------

def all_ids(spec):
    tids = [t["id"] for _f, t, _p in render.walk_tasks(spec["tasks"])]
    rids = [r["id"] for _f, r, _p in render.walk_resources(spec.get("resources"))]
    sids = [s["id"] for s in spec.get("shifts") or []]
    return tids, rids, sids


def rename(spec, mapping):
    s = copy.deepcopy(spec)

    def ref(r):
        bang = len(r) - len(r.lstrip("!"))
        return "!" * bang + ".".join(mapping.get(p, p) for p in r[bang:].split("."))

    def fix_task(t):
        t["id"] = mapping.get(t["id"], t["id"])
        t.pop("name", None)
        if t.get("alloc"):
            t["alloc"] = [mapping.get(a, a) for a in t["alloc"]]
        if t.get("alt"):
            t["alt"] = [mapping.get(a, a) for a in t["alt"]]
        for key in ("deps", "prec"):
            if t.get(key):
                t[key] = [ref(d) if isinstance(d, str) else {**d, "ref": ref(d["ref"])} for d in t[key]]
        for c in t.get("children") or []:
            fix_task(c)

    def fix_res(r):
        r["id"] = mapping.get(r["id"], r["id"])
        if r.get("shift"):
            r["shift"] = mapping.get(r["shift"], r["shift"])
        for c in r.get("children") or []:
            fix_res(c)

    for t in s["tasks"]:
        fix_task(t)
    for r in s.get("resources") or []:
        fix_res(r)
    for sh in s.get("shifts") or []:
        sh["id"] = mapping.get(sh["id"], sh["id"])
    return s


def rewrites_spec(spec):
    """yield (name, rewritten spec, id-mapping new->old)"""
    tids, rids, sids = all_ids(spec)
    uniq_t = list(dict.fromkeys(tids))
    for nk, names in NAMESETS.items():
        ids = uniq_t + rids + sids
        if len(ids) <= len(names):
            m = {old: names[i] for i, old in enumerate(ids)}
            yield f"rename:{nk}", rename(spec, m), {v: k for k, v in m.items()}
    # equal short ids at different depths: give a top-level leaf the short id of a nested task (and vice versa)
    deps = RefDeps(spec)
    top_leaves = [f for f in deps.order if deps.parent[f] is None and deps.is_leaf(f)]
    nested = [f for f in deps.order if deps.parent[f] is not None]
    for tl in top_leaves:
        for ne in nested:
            short = ne.split(".")[-1]
            if short != tl and short not in [x for x in deps.order if deps.parent[x] is None]:
                yield f"rename:clash {tl}->{short}", rename_top(spec, tl, short), {"__full__": {short: tl}}
                break
    # dependency spelling per edge
    for fid in deps.order:
        t = deps.node[fid]
        for key in ("deps",):
            for i, d in enumerate(t.get(key) or []):
                r = d if isinstance(d, str) else d["ref"]
                target = deps.resolve(fid, r)
                if target is None:
                    continue
                alt = target if r.startswith("!") else rel_ref(deps, fid, target)
                s2 = copy.deepcopy(spec)
                t2 = find(s2["tasks"], fid)
                if isinstance(t2[key][i], str):
                    t2[key][i] = alt
                else:
                    t2[key][i]["ref"] = alt
                yield f"refspelling {fid}:{r}->{alt}", s2, {}
                if key == "deps":
                    # 'x depends t { options }'  <->  't precedes x { options }'
                    s3 = copy.deepcopy(spec)
                    t3 = find(s3["tasks"], fid)
                    t3["deps"].pop(i)
                    if not t3["deps"]:
                        del t3["deps"]
                    opts = {k: v for k, v in d.items() if k in ("gap", "onstart", "maxgap", "gaplen") and v} if isinstance(d, dict) else {}
                    find(s3["tasks"], target).setdefault("prec", []).append({"ref": fid, **opts} if opts else fid)
                    yield f"precedes {target}->{fid}", s3, {}
    # the order of the entries of one depends list
    for fid in deps.order:
        if len(deps.node[fid].get("deps") or []) > 1:
            s2 = copy.deepcopy(spec)
            find(s2["tasks"], fid)["deps"].reverse()
            yield f"reorder-deps {fid}", s2, {}
    # shift reference <-> inline hours
    for full, r, _p in render.walk_resources(spec.get("resources")):
        if r.get("shift"):
            s2 = copy.deepcopy(spec)
            r2 = findr(s2["resources"], r["id"])
            r2["hours"] = next(sh["hours"] for sh in spec["shifts"] if sh["id"] == r["shift"])
            del r2["shift"]
            yield f"inline-shift {r['id']}", s2, {}
        elif r.get("hours"):
            s2 = copy.deepcopy(spec)
            r2 = findr(s2["resources"], r["id"])
            s2.setdefault("shifts", []).append({"id": "sh_" + r["id"], "hours": r["hours"]})
            del r2["hours"]
            r2["shift"] = "sh_" + r["id"]
            yield f"extract-shift {r['id']}", s2, {}


def rename_top(spec, old, new):
    """rename only the top-level task `old` to `new`, fixing the references that resolve to it"""
    deps = RefDeps(spec)
    s = copy.deepcopy(spec)
    for fid in deps.order:
        t = find(s["tasks"], fid)
        for key in ("deps", "prec"):
            for i, d in enumerate(t.get(key) or []):
                r = d if isinstance(d, str) else d["ref"]
                if deps.resolve(fid, r) == old:
                    bang = len(r) - len(r.lstrip("!"))
                    nr = "!" * bang + new
                    if isinstance(d, str):
                        t[key][i] = nr
                    else:
                        d["ref"] = nr
    find(s["tasks"], old)["id"] = new
    return s


def rename_nested(spec, container, old, new):
    """rename <container>.<old> to <container>.<new> in a spec whose references are absolute paths"""
    s = copy.deepcopy(spec)
    oldf, newf = f"{container}.{old}", f"{container}.{new}"
    for fid, t, _p in render.walk_tasks(s["tasks"]):
        for key in ("deps", "prec"):
            for i, d in enumerate(t.get(key) or []):
                r = d if isinstance(d, str) else d["ref"]
                if r == oldf:
                    if isinstance(d, str):
                        t[key][i] = newf
                    else:
                        d["ref"] = newf
    find(s["tasks"], oldf)["id"] = new
    return s


def rel_ref(deps, frm, to):
    base = deps.parent[frm]
    bangs = 1
    while base is not None and not to.startswith(base + "."):
        base = deps.parent[base]
        bangs += 1
    rest = to[len(base) + 1:] if base else to
    return "!" * bangs + rest


def find(tasks, fid):
    parts = fid.split(".")
    cur = None
    lst = tasks
    for p in parts:
        cur = next(t for t in lst if t["id"] == p)
        lst = cur.get("children") or []
    return cur


def findr(resources, rid):
    for _f, r, _p in render.walk_resources(resources):
        if r["id"] == rid:
            return r
    return None


# ---- text-level rewrites ----------------------------------------------------------------------------

def text_rewrites(text, tier, dense):
    toks = [(m.start(), m.end()) for m in TOK.finditer(text)]
    step = 1 if dense else max(1, len(toks) // 12)
    for i in range(0, len(toks) - 1, step):
        b = toks[i][1]
        for ci, c in enumerate(COMMENTS):
            if not dense and tier == "quick" and ci not in (0, 2, 4):
                continue
            yield f"comment@{i}:{ci}", text[:b] + c + text[b:]
    # macros: each attribute line (inside a body) moved into a macro
    lines = text.split("\n")
    k = 0
    for li, line in enumerate(lines):
        st = line.strip()
        if not st or st.endswith("{") or st == "}" or st.startswith(("project", "macro")):
            continue
        k += 1
        name = f"mac{k}"
        new = lines[:li] + [line.replace(st, "${" + name + "}")] + lines[li + 1:]
        yield f"macro line {li}", f"macro {name} [ {st} ]\n" + "\n".join(new)
        parts = st.split(" ", 1)
        if len(parts) == 2 and " " not in parts[1] and "{" not in parts[1]:
            new = lines[:li] + [line.replace(st, "${" + name + " " + parts[1] + "}")] + lines[li + 1:]
            yield f"macro-arg line {li}", f"macro {name} [ {parts[0]} ${{1}} ]\n" + "\n".join(new)
            # the value passed as the 10th / 12th of twelve arguments (two-digit placeholders)
            for pos in (10, 12):
                args = ["x%d" % j for j in range(1, 13)]
                args[pos - 1] = parts[1]
                new = lines[:li] + [line.replace(st, "${" + name + " " + " ".join(args) + "}")] + lines[li + 1:]
                yield f"macro-arg{pos} line {li}", f"macro {name} [ {parts[0]} ${{{pos}}} ]\n" + "\n".join(new)
    # comments of every style inside a macro body (body kept multi-line)
    mb = re.search(r'(task \w+ "\w+" \{\n)((?:\s+[^{}\n]+\n){2,})(\s*\})', text)
    if mb:
        blines = mb.group(2).split("\n")
        for ci, com in enumerate(("// c", "# c", "/* c */", "// { \" c")):
            for pos in range(1, len(blines) - 1):
                body = "\n".join(blines[:pos] + ["    " + com] + blines[pos:])
                yield f"macro body comment {ci}@{pos}", "macro bodyc [\n" + body + "]\n" + text[:mb.start(2)] + "  ${bodyc}\n" + text[mb.end(2):]
    # a whole task body
    m = re.search(r'(task \w+ "\w+" \{\n)((?:\s+[^{}\n]+\n)+)(\s*\})', text)
    if m:
        yield "macro body", "macro body1 [\n" + m.group(2) + "]\n" + text[:m.start(2)] + "  ${body1}\n" + text[m.end(2):]


def universe(tier):
    bs = bases(tier)
    for bi, spec in enumerate(bs):
        text = render.render(spec)
        yield {"bi": bi, "kind": "orig"}
        for name, _s2, _m in rewrites_spec(spec):
            yield {"bi": bi, "kind": "spec", "name": name}
        for name, _t in text_rewrites(text, tier, dense=(bi in (1, len(bs) - 7, len(bs) - 6, len(bs) - 4) or tier == "thorough")):
            yield {"bi": bi, "kind": "text", "name": name}


def materialise(item):
    spec = bases(item.get("tier", "quick"))[item["bi"]]
    if item["kind"] == "orig":
        return render.render(spec), {}
    if item["kind"] == "spec":
        for name, s2, m in rewrites_spec(spec):
            if name == item["name"]:
                return render.render(s2), m
        raise KeyError(item)
    text = render.render(spec)
    for name, t in text_rewrites(text, "thorough", dense=True):
        if name == item["name"]:
            return t, {}
    raise KeyError(item)


def dates(obs, idmap):
    out = {}
    full = idmap.get("__full__") or {}
    for t in obs["tasks"]:
        tid = full.get(t["id"]) or ".".join(idmap.get(p, p) for p in t["id"].split("."))
        out[tid] = (tuple(t["sched"]), tuple(t["start"]) if any(t["sched"]) else None, tuple(t["end"]) if any(t["sched"]) else None)
    return out


_base_cache = {}


def evaluate(item):
    from mc import observe

    spec = bases("quick")[item["bi"]]
    if item["bi"] not in _base_cache:
        ob = observe.run_text(render.render(spec))
        _base_cache[item["bi"]] = dates(ob, {}) if not ob.get("error") else ("ERR", ob["error"])
    base = _base_cache[item["bi"]]
    text, idmap = materialise(item)
    observe.install_monitors()
    observe.reset_counters()
    obs = observe.run_text(text)
    r = {"k": render.key(item), "v": [], "nt": item["kind"] != "orig", "s": observe.sig(obs), "tr": observe.MON["placements"] + observe.MON["bookings"]}
    if isinstance(base, tuple):
        r["v"] = [("crash", f"base project failed: {base[1]}")]
        return r
    if obs.get("error"):
        r["v"] = [("rewrite-rejected", f"{item.get('name')}: rewritten text fails with {obs['error']}")]
        return r
    got = dates(obs, idmap)
    v = []
    for tid, d in base.items():
        if got.get(tid) != d:
            v.append(("spelling", f"{item.get('name')}: task {tid} original {d} rewritten {got.get(tid)}"))
    r["v"] = common.dedup(v)
    return r


def payload(item, clause, detail):
    text, idmap = materialise(item)
    return {"item": item, "detail": detail, "tjp_original": render.render(bases("quick")[item["bi"]]), "tjp": text, "idmap_new_to_old": idmap}


def sample(item):
    return {"item": item, "tjp": materialise(item)[0][:1500]}


def trait(item, clause, detail, fid):
    return False


def run(ctx):
    st = Stats()
    explore(ctx, universe(ctx.tier), "mc.props.c15:evaluate", st, payload=payload, sample_of=sample, trait=trait)
    cov = st.coverage(
        "every single application of every rewrite to every base (comments: every token boundary x 6 comment forms on two dense bases, every "
        "~8th boundary on the others; thorough: all boundaries everywhere); states = distinct observations of rewritten texts; transitions = "
        "placements + bookings; non-trivial = every rewritten text (the original of each base is evaluated once as well)",
        bases=len(bases(ctx.tier)))
    return ctx.finish(cov, ASSUME)


def replay(path):
    return common.generic_replay(path, evaluate)
