"""Mode D: N real `plan` processes under one controller that owns the interleaving of their file-system steps.

Every process blocks at each audited step until the controller grants it, so exactly one process moves at a
time and an execution is fully determined by the sequence of choices at *scheduling points* (steps on paths
below the shared $TMPDIR - all processes get the same pinned candidate names, so these collide on purpose -
plus creations/removals/listings in the shared cwd). Steps that only read the cwd, and stdout writes, commute
with everything another process does and are executed eagerly.
"""
import os
import time

from mc.cli import control


def is_sched_point(ev):
    p = ev.get("path") or ""
    if ev["ev"] == "stdout-write":
        return False
    if p.startswith("$TMP"):
        return True
    if p.startswith("$CWD"):
        return ev["ev"] not in ("open-r",)  # reads of the shared inputs commute
    return False


def interleave_job(job):
    """job: {procs: [{args, stdin}], files: {name: bytes}, prefix: [choice indices]}
    -> {choices, points, results, tmp_left, cwd_changed, steps}"""
    sb = control.Sandbox(job.get("files"))
    procs = []
    try:
        for i, pj in enumerate(job["procs"]):
            procs.append(control.Proc(pj["args"], pj.get("stdin"), sb.cwd, sb.tmp, label=f"p{i}"))
        pending = {}

        def advance(i):
            """let process i run until its next scheduling point (eager steps are granted at once); None at exit"""
            while True:
                ev = procs[i].next_event()
                if ev is None:
                    pending.pop(i, None)
                    return
                if is_sched_point(ev):
                    pending[i] = ev
                    return
                procs[i].answer({"act": "go"})

        for i in range(len(procs)):
            advance(i)
        prefix = list(job.get("prefix") or [])
        choices, points = [], []
        running = None
        preempt = 0
        steps = 0
        t0 = time.time()
        while pending:
            enabled = sorted(pending)
            if running in pending:
                enabled = [running] + [x for x in enabled if x != running]
            if len(enabled) > 1:
                idx = prefix[len(choices)] if len(choices) < len(prefix) else 0
                if idx >= len(enabled):
                    return {"error": f"replay divergence: choice {idx} but only {len(enabled)} enabled at point {len(choices)}"}
                points.append({"n": len(enabled), "running_enabled": running in pending, "pre": preempt,
                               "at": [pending[x]["ev"] + " " + str(pending[x]["path"]) for x in enabled]})
                choices.append(idx)
                if running in pending and idx != 0:
                    preempt += 1
                pick = enabled[idx]
            else:
                pick = enabled[0]
            running = pick
            procs[pick].answer({"act": "go"})
            steps += 1
            advance(pick)
            if time.time() - t0 > control.HORIZON_S:
                for p in procs:
                    p.kill()
                return {"error": "horizon exceeded", "choices": choices}
        results = []
        for p in procs:
            code, out, err = p.finish()
            results.append({"code": code, "stdout": out, "stderr": err[-600:]})
        left, changed = sb.leftovers()
        return {"choices": choices, "points": points, "results": results, "tmp_left": left, "cwd_changed": changed, "steps": steps, "cwd_new": sb.new_files()}
    finally:
        for p in procs:
            if p.p.poll() is None:
                p.kill()
        sb.close()


def successors(res, bound, prefix_len):
    """Prefixes to explore next (iterative preemption bounding, canonical enabled order)."""
    out = []
    for i in range(prefix_len, len(res["choices"])):
        pt = res["points"][i]
        cost = pt["pre"] + (1 if pt["running_enabled"] else 0)
        if cost > bound:
            continue
        for alt in range(1, pt["n"]):
            out.append(res["choices"][:i] + [alt])
    return out
